//! Plain replays (no explorer) of the six defects of DESIGN.md §7: each test states the
//! property on the minimal witness and fails on the pinned tree (before the `fix:` commits).
//! Run: cd /verif/mc && CARGO_TARGET_DIR=target-full cargo test --release --offline --features full --test section7
#![cfg(feature = "full")]
use textwrap::core::display_width;
use textwrap::{dedent, wrap, wrap_columns, Options, WordSeparator, WrapAlgorithm};

#[test]
fn a_later_paragraphs_are_measured_with_the_subsequent_indent() {
    // C02: every first-fit line fits unless it is one unbreakable fragment
    let o = Options::new(6).subsequent_indent("    ").wrap_algorithm(WrapAlgorithm::FirstFit);
    for line in wrap("a\nbb cc dd", &o) {
        assert!(display_width(&line) <= 6, "{:?}", line);
    }
    assert_eq!(wrap("a\na", Options::new(1).initial_indent(">").wrap_algorithm(WrapAlgorithm::FirstFit)), vec![">", "a", "a"]);
}

#[test]
fn b_empty_lines_carry_the_indent() {
    // C08
    assert_eq!(wrap("foo\n\nbar", Options::new(10).subsequent_indent("| ")), vec!["foo", "| ", "| bar"]);
    assert_eq!(wrap("", Options::new(10).initial_indent("!!!").break_words(false)), vec!["!!!"]);
}

#[test]
fn c_trailing_hyphen_keeps_the_last_break_opportunity() {
    // C11
    let words: Vec<String> = WordSeparator::UnicodeBreakProperties.find_words("aaa bbb ccc-").map(|w| format!("{}{}", w.word, w.whitespace)).collect();
    assert_eq!(words, vec!["aaa ", "bbb ", "ccc-"]);
}

#[test]
fn d_blank_lines_do_not_influence_the_margin() {
    // C18
    assert_eq!(dedent("    foo\n\t\n    bar"), "foo\n\nbar");
    let once = dedent("  a\n \t\n  b\n");
    assert_eq!(dedent(&once), once);
}

#[test]
fn e_wrap_columns_does_not_panic_on_a_line_wider_than_its_column() {
    // C20
    let rows = wrap_columns("\u{ff28}", 1, 1, "", "", "");
    assert_eq!(rows, vec!["\u{ff28}"]);
    let rows = wrap_columns("foobar", 1, Options::new(3).break_words(false), "", "", "");
    assert_eq!(rows, vec!["foobar"]);
}

#[test]
fn f_hyphens_inside_escape_sequences_are_not_split_points() {
    // C05 / C13
    let link = "\x1b]8;;https://my-site.org\x1b\\link\x1b]8;;\x1b\\";
    assert_eq!(display_width(link), 4);
    assert_eq!(wrap(link, 10), vec![link]);
}
