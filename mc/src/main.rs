//! twmc — bounded exhaustive explorer for the textwrap properties C01..C20.
//!
//!   twmc check <ID> --tier quick|thorough --part-out <file>
//!   twmc merge <ID> <tier> <evidence-out> <part>...
//!   twmc replay <replay-file>
//!   twmc list

mod alphabet;
mod cfg;
mod explore;
mod props;
mod refmodel;
mod run;
mod wraplevel;

use explore::*;
use run::*;
use serde_json::{json, Value};
use std::collections::HashSet;
use std::time::Instant;


/// keys "sub|input|config" of findings of `property` recorded as known (not repaired)
fn load_known(property: &str) -> HashSet<String> {
    let mut set = HashSet::new();
    if let Ok(s) = std::fs::read_to_string(format!("{}/known_findings.jsonl", run::home())) {
        for line in s.lines() {
            let line = line.trim();
            if line.is_empty() || line.starts_with('#') {
                continue;
            }
            if let Ok(v) = serde_json::from_str::<Value>(line) {
                if v["status"] == "known" && v["property"] == property {
                    set.insert(format!("{}|{}|{}", v["sub_check"].as_str().unwrap_or(""), v["input"].as_str().unwrap_or(""), v["config"].as_str().unwrap_or("")));
                }
            }
        }
    }
    set
}

fn usage() -> ! {
    eprintln!("usage: twmc check <ID> --tier quick|thorough [--part-out FILE] | merge <ID> <tier> <out> <part>... | replay <file> | list");
    std::process::exit(2)
}

fn run_property(def: &props::PropDef, tier: Tier, only: Option<(String, Vec<u8>, String)>) -> (i32, Value) {
    let t0 = Instant::now();
    let caps = default_caps(tier);
    let only_key = only.as_ref().map(|o| o.2.clone());
    let shared = Shared::new(caps.threads, only_key, load_known(def.id));
    let mut r = Run {
        property: def.id,
        tier,
        caps: caps.clone(),
        shared: &shared,
        deadline: Instant::now() + caps.wall,
        results: vec![],
        only: only.map(|o| (o.0, o.1)),
        hang_is_verdict: true,
    };
    if let Err(e) = (def.run)(&mut r) {
        eprintln!("MACHINERY ERROR: {}", e.0);
        return (2, Value::Null);
    }
    let replaying = r.only.is_some();
    // classify: known findings were separated at failure time (exact key match)
    let mut known_hit: Vec<String> = vec![];
    let mut new_violations: Vec<&Violation> = vec![];
    let mut unlisted: u64 = 0;
    for res in &r.results {
        unlisted += res.counters.subs.values().map(|v| v.1).sum::<u64>();
        new_violations.extend(res.violations.iter());
        for k in &res.known_hits {
            if !known_hit.contains(k) {
                known_hit.push(k.clone());
            }
        }
    }
    for k in &known_hit {
        println!("KNOWN-FINDING: property={} {}", def.id, k);
    }
    let mut exit = 0;
    if unlisted > 0 {
        exit = 1;
        let _ = std::fs::create_dir_all(format!("{}/replays", run::home()));
        let mut printed = 0;
        let mut seen_paths: HashSet<String> = HashSet::new();
        for v in &new_violations {
            let j = v.to_json(def.id, BUILD);
            let path = format!("{}/replays/{}-{:016x}.json", run::home(), def.id, fnv64(format!("{}|{}", BUILD, v.key(def.id)).as_bytes()));
            if let Err(e) = std::fs::write(&path, serde_json::to_string_pretty(&j).unwrap()) {
                eprintln!("MACHINERY ERROR: cannot write replay file {}: {}", path, e);
                return (2, Value::Null);
            }
            if !seen_paths.insert(path.clone()) {
                continue;
            }
            println!("VIOLATION property={} replay={}", def.id, path);
            if printed < 8 {
                eprintln!("  sub-check {} [{}] input={:?} config={} detail={}", v.sub, BUILD, v.input, v.config, v.detail);
                printed += 1;
            }
        }
        if new_violations.is_empty() {
            // cannot happen (a failure always retains at least one violation per sub-check and space)
            eprintln!("MACHINERY ERROR: failures counted but none retained");
            return (2, Value::Null);
        }
    }
    // non-vacuity floor (not in replay mode)
    let nontrivial: u64 = r.results.iter().map(|x| x.counters.nontrivial).sum();
    let all_exhaustive = r.results.iter().all(|x| x.exhaustive());
    if !replaying && exit == 0 && all_exhaustive {
        let floor = (def.floor)(tier);
        if nontrivial < floor {
            eprintln!("MACHINERY ERROR: non-vacuity self-check failed for {} [{}]: {} non-trivial evaluations, floor {}", def.id, BUILD, nontrivial, floor);
            return (2, Value::Null);
        }
    }
    let part = part_json(def.id, tier, &r.results, def.rule, def.assumptions, t0.elapsed().as_secs_f64(), unlisted, &known_hit, shared.distinct_outcomes());
    (exit, part)
}

fn main() {
    install_panic_hook();
    let args: Vec<String> = std::env::args().collect();
    if args.len() < 2 {
        usage();
    }
    match args[1].as_str() {
        "list" => {
            for d in props::all() {
                println!("{} builds={:?}", d.id, d.builds);
            }
        }
        "check" => {
            if args.len() < 3 {
                usage();
            }
            let id = args[2].as_str();
            let mut tier = match std::env::var("VERIF_TIER").as_deref() {
                Ok("thorough") => Tier::Thorough,
                _ => Tier::Quick,
            };
            let mut part_out: Option<String> = None;
            let mut i = 3;
            while i < args.len() {
                match args[i].as_str() {
                    "--tier" => {
                        tier = match args.get(i + 1).map(|s| s.as_str()) {
                            Some("quick") => Tier::Quick,
                            Some("thorough") => Tier::Thorough,
                            _ => usage(),
                        };
                        i += 2;
                    }
                    "--part-out" => {
                        part_out = args.get(i + 1).cloned();
                        i += 2;
                    }
                    _ => usage(),
                }
            }
            let def = match props::all().into_iter().find(|d| d.id == id) {
                Some(d) => d,
                None => {
                    eprintln!("unknown property {}", id);
                    std::process::exit(2)
                }
            };
            if !def.builds.contains(&BUILD) {
                eprintln!("property {} is not explored in the {} build", id, BUILD);
                std::process::exit(0);
            }
            let (code, part) = run_property(&def, tier, None);
            if code != 2 {
                if let Some(p) = part_out {
                    if let Err(e) = std::fs::write(&p, serde_json::to_string_pretty(&part).unwrap()) {
                        eprintln!("MACHINERY ERROR: cannot write {}: {}", p, e);
                        std::process::exit(2);
                    }
                }
            }
            std::process::exit(code);
        }
        "replay" => {
            if args.len() < 3 {
                usage();
            }
            let s = std::fs::read_to_string(&args[2]).unwrap_or_else(|e| {
                eprintln!("cannot read {}: {}", args[2], e);
                std::process::exit(2)
            });
            let v: Value = serde_json::from_str(&s).unwrap_or_else(|e| {
                eprintln!("bad replay file: {}", e);
                std::process::exit(2)
            });
            let id = v["property"].as_str().unwrap_or("");
            if v["build"].as_str() != Some(BUILD) {
                eprintln!("replay file was produced by the {} build; this is the {} build", v["build"], BUILD);
                std::process::exit(3);
            }
            let def = props::all().into_iter().find(|d| d.id == id).unwrap_or_else(|| {
                eprintln!("unknown property {}", id);
                std::process::exit(2)
            });
            let seq: Vec<u8> = v["seq"].as_array().map(|a| a.iter().map(|x| x.as_u64().unwrap_or(0) as u8).collect()).unwrap_or_default();
            let key = format!("{}|{}|{}", v["sub_check"].as_str().unwrap_or(""), v["input"].as_str().unwrap_or(""), v["config"].as_str().unwrap_or(""));
            let (code, _) = run_property(&def, Tier::Quick, Some((v["space"].as_str().unwrap_or("").to_string(), seq, key)));
            if code == 0 {
                println!("replay: the recorded case no longer violates {}", id);
            }
            std::process::exit(code);
        }
        "merge" => {
            if args.len() < 6 {
                usage();
            }
            let id = &args[2];
            let tier = &args[3];
            let out = &args[4];
            let mut parts: Vec<Value> = vec![];
            for p in &args[5..] {
                match std::fs::read_to_string(p).ok().and_then(|s| serde_json::from_str::<Value>(&s).ok()) {
                    Some(v) => parts.push(v),
                    None => {
                        eprintln!("MACHINERY ERROR: cannot read part {}", p);
                        std::process::exit(2);
                    }
                }
            }
            let sum = |k: &str| -> u64 { parts.iter().map(|p| p[k].as_u64().unwrap_or(0)).sum() };
            let mut samples: Vec<Value> = vec![];
            let mut spaces: Vec<Value> = vec![];
            let mut caps_hit: Vec<Value> = vec![];
            let mut assumptions: Vec<Value> = vec![];
            let mut known: Vec<Value> = vec![];
            let mut per_build = serde_json::Map::new();
            for p in &parts {
                let b = p["build"].as_str().unwrap_or("?").to_string();
                for s in p["samples"].as_array().cloned().unwrap_or_default() {
                    samples.push(json!({"build": b, "space": s["space"], "case": s["case"]}));
                }
                spaces.extend(p["spaces"].as_array().cloned().unwrap_or_default());
                caps_hit.extend(p["caps_hit"].as_array().cloned().unwrap_or_default());
                known.extend(p["known_findings_hit"].as_array().cloned().unwrap_or_default());
                for a in p["assumptions"].as_array().cloned().unwrap_or_default() {
                    if !assumptions.contains(&a) {
                        assumptions.push(a);
                    }
                }
                per_build.insert(
                    b,
                    json!({
                        "states": p["states"], "evaluations": p["evaluations"], "distinct_nontrivial": p["distinct_nontrivial"],
                        "sub_checks": p["sub_checks"], "notes": p["notes"], "panics_observed": p["panics_observed"],
                        "distinct_outcomes_lower_bound": p["distinct_outcomes_lower_bound"], "wall_s": p["wall_s"], "violations": p["violations"],
                    }),
                );
            }
            let exhaustive = parts.iter().all(|p| p["exhaustive"].as_bool().unwrap_or(false));
            let seed: i64 = std::env::var("VERIF_SEED").ok().and_then(|s| s.parse().ok()).unwrap_or(0);
            let ev = json!({
                "property_id": id,
                "tier": tier,
                "seed": seed,
                "level": "model_checking",
                "coverage": {
                    "states": sum("states"),
                    "transitions": sum("transitions").max(1),
                    "traces_validated_against_impl": sum("traces_validated_against_impl"),
                    "samples": samples,
                    "evaluations": sum("evaluations"),
                    "distinct_nontrivial": sum("distinct_nontrivial"),
                    "rule": parts.first().map(|p| p["rule"].clone()).unwrap_or(Value::Null),
                    "exhaustive": exhaustive,
                    "explanation": "explicit-state exhaustive enumeration of every sequence over the listed menus up to the listed lengths, each state executed on the real textwrap code under every listed configuration and compared with the reference model / property predicate; `seed` is recorded but unused (no random choice is made)",
                    "spaces": spaces,
                    "caps_hit": caps_hit,
                    "builds": per_build,
                    "known_findings_hit": known,
                },
                "assumptions": assumptions,
                "wall_s": parts.iter().map(|p| p["wall_s"].as_f64().unwrap_or(0.0)).sum::<f64>(),
                "violations": sum("violations"),
            });
            if let Some(dir) = std::path::Path::new(out).parent() {
                let _ = std::fs::create_dir_all(dir);
            }
            if let Err(e) = std::fs::write(out, serde_json::to_string_pretty(&ev).unwrap()) {
                eprintln!("MACHINERY ERROR: cannot write {}: {}", out, e);
                std::process::exit(2);
            }
        }
        _ => usage(),
    }
}
