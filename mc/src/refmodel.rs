//! Reference models (DESIGN.md §4), written from the property statements and
//! the public documentation, not from the implementation.

/// Column width of one character as the properties define it.
#[cfg(feature = "full")]
pub fn ref_char_width(c: char) -> usize {
    unicode_width::UnicodeWidthChar::width(c).unwrap_or(0)
}
#[cfg(not(feature = "full"))]
pub fn ref_char_width(c: char) -> usize {
    if c < '\u{1100}' {
        1
    } else {
        2
    }
}

/// Result of scanning a text with the escape-sequence grammar of C10:
/// CSI = ESC '[' ... final byte in '@'..='~';  OSC = ESC ']' ... (BEL | ESC '\').
pub struct Vis {
    /// visible characters with their byte offsets
    pub chars: Vec<(usize, char)>,
    /// byte ranges [start, end) of the escape sequences
    pub seqs: Vec<(usize, usize)>,
}

#[derive(PartialEq, Clone, Copy)]
enum St {
    Ground,
    Esc,
    Csi,
    Osc,
    OscEsc,
}

/// `None` if some ESC does not begin a complete, well-formed sequence.
pub fn ref_visible(s: &str) -> Option<Vis> {
    let mut v = Vis { chars: vec![], seqs: vec![] };
    let mut st = St::Ground;
    let mut start = 0;
    for (i, c) in s.char_indices() {
        match st {
            St::Ground => {
                if c == '\x1b' {
                    st = St::Esc;
                    start = i;
                } else {
                    v.chars.push((i, c));
                }
            }
            St::Esc => {
                st = match c {
                    '[' => St::Csi,
                    ']' => St::Osc,
                    _ => return None,
                }
            }
            St::Csi => {
                if ('\x40'..='\x7e').contains(&c) {
                    v.seqs.push((start, i + c.len_utf8()));
                    st = St::Ground;
                }
            }
            St::Osc => {
                if c == '\x07' {
                    v.seqs.push((start, i + 1));
                    st = St::Ground;
                } else if c == '\x1b' {
                    st = St::OscEsc;
                }
            }
            St::OscEsc => {
                if c == '\\' {
                    v.seqs.push((start, i + 1));
                    st = St::Ground;
                } else if c == '\x07' {
                    v.seqs.push((start, i + 1));
                    st = St::Ground;
                } else if c != '\x1b' {
                    st = St::Osc;
                }
            }
        }
    }
    if st != St::Ground {
        return None;
    }
    Some(v)
}

pub fn is_wellformed(s: &str) -> bool {
    ref_visible(s).is_some()
}

impl Vis {
    pub fn width(&self) -> usize {
        self.chars.iter().map(|&(_, c)| ref_char_width(c)).sum()
    }
    pub fn stripped(&self) -> String {
        self.chars.iter().map(|&(_, c)| c).collect()
    }
    /// number of visible characters of non-zero width
    pub fn nonzero(&self) -> usize {
        self.chars.iter().filter(|&&(_, c)| ref_char_width(c) > 0).count()
    }
    /// is byte offset `b` strictly inside an escape sequence?
    pub fn inside_seq(&self, b: usize) -> bool {
        self.seqs.iter().any(|&(s, e)| s < b && b < e)
    }
    /// number of visible bytes before byte offset `b`
    pub fn stripped_offset(&self, b: usize) -> usize {
        self.chars.iter().filter(|&&(i, _)| i < b).map(|&(_, c)| c.len_utf8()).sum()
    }
}

/// Display width of a text.  Defined by the reference grammar for well-formed text; for text
/// with an ESC that does not begin a complete sequence (never produced from well-formed input
/// unless a sequence was cut, which the callers that judge widths check for first) it falls back
/// to the implementation's `display_width`, so that a harness oracle never panics on an
/// unexpected output.
pub fn ref_width(s: &str) -> usize {
    match ref_visible(s) {
        Some(v) => v.width(),
        None => textwrap::core::display_width(s),
    }
}

pub fn ref_strip(s: &str) -> String {
    ref_visible(s).expect("ref_strip on malformed text").stripped()
}

/// ASCII separator: a boundary is a position where a space is followed by a non-space.
pub fn ref_bounds_ascii(line: &str) -> Vec<usize> {
    let b = line.as_bytes();
    (1..b.len()).filter(|&i| b[i - 1] == b' ' && b[i] != b' ').collect()
}

/// Unicode separator, in *stripped* coordinates: the UAX #14 opportunities of
/// the stripped line, minus the end-of-text one, minus those directly after
/// '-' or U+00AD.
#[cfg(feature = "full")]
pub fn ref_bounds_unicode_stripped(stripped: &str) -> Vec<usize> {
    unicode_linebreak::linebreaks(stripped)
        .map(|(i, _)| i)
        .filter(|&i| i != stripped.len())
        .filter(|&i| !matches!(stripped[..i].chars().next_back(), Some('-') | Some('\u{ad}')))
        .collect()
}

/// Unicode separator boundaries mapped back to byte offsets of the original
/// line: a boundary before visible character k is reported at the *start* of
/// that visible character ... or anywhere between the end of the previous
/// visible character and it; callers compare in stripped coordinates.  This
/// helper returns, for each stripped boundary, the interval
/// [end of previous visible char, start of next visible char] of admissible
/// original offsets.
#[cfg(feature = "full")]
pub fn ref_bounds_unicode_intervals(line: &str, vis: &Vis) -> Vec<(usize, usize)> {
    let stripped = vis.stripped();
    let sb = ref_bounds_unicode_stripped(&stripped);
    let mut out = vec![];
    let mut acc = 0;
    for (k, &(b, ch)) in vis.chars.iter().enumerate() {
        if k > 0 && sb.contains(&acc) {
            let (pb, pc) = vis.chars[k - 1];
            out.push((pb + pc.len_utf8(), b));
        }
        acc += ch.len_utf8();
    }
    let _ = line;
    out
}

/// Hyphen splitter: directly after each '-' of the text (a '-' inside an escape sequence, e.g. in
/// the URL of a hyperlink, is not text) that has an alphanumeric character on both sides.
pub fn ref_hyphen_points(word: &str) -> Vec<usize> {
    let vis = ref_visible(word);
    let cs: Vec<(usize, char)> = word.char_indices().collect();
    (1..cs.len().saturating_sub(1))
        .filter(|&k| cs[k].1 == '-' && cs[k - 1].1.is_alphanumeric() && cs[k + 1].1.is_alphanumeric())
        .filter(|&k| vis.as_ref().map(|v| !v.inside_seq(cs[k].0)).unwrap_or(true))
        .map(|k| cs[k].0 + 1)
        .collect()
}

#[derive(Clone, Copy, Debug, PartialEq)]
pub struct Frag {
    pub w: f64,
    pub ws: f64,
    pub p: f64,
}

impl textwrap::core::Fragment for Frag {
    fn width(&self) -> f64 {
        self.w
    }
    fn whitespace_width(&self) -> f64 {
        self.ws
    }
    fn penalty_width(&self) -> f64 {
        self.p
    }
}

pub fn width_of_line(k: usize, widths: &[f64]) -> f64 {
    if widths.is_empty() {
        0.0
    } else if k < widths.len() {
        widths[k]
    } else {
        widths[widths.len() - 1]
    }
}

/// The greedy rule of C07, verbatim: a new line starts at fragment i iff the
/// current line is non-empty and acc + w_i + pen_i > width_k, where k is the
/// number of lines already closed.  Returns the line lengths.
pub fn ref_first_fit(frags: &[Frag], widths: &[f64]) -> Vec<usize> {
    let mut lens = vec![];
    let mut cur = 0usize;
    let mut acc = 0.0;
    for f in frags {
        let target = width_of_line(lens.len(), widths);
        if cur > 0 && acc + f.w + f.p > target {
            lens.push(cur);
            cur = 0;
            acc = 0.0;
        }
        acc += f.w + f.ws;
        cur += 1;
    }
    lens.push(cur);
    lens
}

#[derive(Clone, Copy, Debug, PartialEq)]
pub struct Pen {
    pub nline: f64,
    pub overflow: f64,
    pub fraction: f64,
    pub short: f64,
    pub hyphen: f64,
}

/// Documented cost of a line holding frags[i..j] as line number `lineno`
/// (0-based) of a paragraph of n fragments.
pub fn ref_line_cost(frags: &[Frag], i: usize, j: usize, lineno: usize, widths: &[f64], pen: &Pen) -> f64 {
    let n = frags.len();
    let target = width_of_line(lineno, widths);
    let mut width = 0.0;
    for f in &frags[i..j] {
        width += f.w + f.ws;
    }
    width = width - frags[j - 1].ws + frags[j - 1].p;
    let mut c = pen.nline;
    if width > target {
        c += (width - target) * pen.overflow;
    } else if j < n {
        let g = target - width;
        c += g * g;
    } else if i + 1 == j && width < target / pen.fraction {
        c += pen.short;
    }
    if frags[j - 1].p > 0.0 {
        c += pen.hyphen;
    }
    c
}

/// Cost of a given arrangement (line lengths).
pub fn ref_arrangement_cost(frags: &[Frag], lens: &[usize], widths: &[f64], pen: &Pen) -> f64 {
    let mut i = 0;
    let mut c = 0.0;
    for (k, &l) in lens.iter().enumerate() {
        c += ref_line_cost(frags, i, i + l, k, widths, pen);
        i += l;
    }
    c
}

/// Minimum over all 2^(n-1) arrangements, by explicit enumeration (n <= 16).
pub fn ref_optimum_brute(frags: &[Frag], widths: &[f64], pen: &Pen) -> f64 {
    let n = frags.len();
    assert!(n >= 1 && n <= 16);
    let mut best = f64::INFINITY;
    for mask in 0u32..(1 << (n - 1)) {
        // bit k set = break after fragment k
        let mut c = 0.0;
        let mut i = 0;
        let mut lineno = 0;
        for k in 0..n {
            if k == n - 1 || mask & (1 << k) != 0 {
                c += ref_line_cost(frags, i, k + 1, lineno, widths, pen);
                i = k + 1;
                lineno += 1;
            }
        }
        if c < best {
            best = c;
        }
    }
    best
}

/// Minimum cost for at most two distinct line widths (first line / all other
/// lines) by dynamic programming: the line number only matters through
/// "is it the first line", i.e. through i == 0.
pub fn ref_optimum_dp(frags: &[Frag], widths: &[f64], pen: &Pen) -> f64 {
    assert!(widths.len() <= 2);
    let n = frags.len();
    let mut b = vec![f64::INFINITY; n + 1];
    b[0] = 0.0;
    for j in 1..=n {
        for i in 0..j {
            let c = b[i] + ref_line_cost(frags, i, j, if i == 0 { 0 } else { 1 }, widths, pen);
            if c < b[j] {
                b[j] = c;
            }
        }
    }
    b[n]
}

/// Same minimum as `ref_optimum_dp`, with prefix sums (O(n^2) instead of O(n^3)) for the long
/// inputs of the scale probes.  All widths are small integers, so the sums are exact and the
/// two functions agree bit for bit (asserted by the callers on short inputs).
pub fn ref_optimum_dp_fast(frags: &[Frag], widths: &[f64], pen: &Pen) -> f64 {
    assert!(widths.len() <= 2);
    let n = frags.len();
    let mut pre = vec![0.0f64; n + 1];
    for (k, f) in frags.iter().enumerate() {
        pre[k + 1] = pre[k] + f.w + f.ws;
    }
    let mut b = vec![f64::INFINITY; n + 1];
    b[0] = 0.0;
    for j in 1..=n {
        let last = &frags[j - 1];
        // i = 0 (a first line, possibly with a different width) is always a candidate; the
        // pruning below only applies among the later lines, which share one width
        let mut order: Vec<usize> = vec![0];
        order.extend((1..j).rev());
        for i in order {
            let target = width_of_line(if i == 0 { 0 } else { 1 }, widths);
            let width = pre[j] - pre[i] - last.ws + last.p;
            let mut c = pen.nline;
            if width > target {
                c += (width - target) * pen.overflow;
            } else if j < n {
                let g = target - width;
                c += g * g;
            } else if i + 1 == j && width < target / pen.fraction {
                c += pen.short;
            }
            if last.p > 0.0 {
                c += pen.hyphen;
            }
            let total = b[i] + c;
            if total < b[j] {
                b[j] = total;
            }
            // lines only get wider as i decreases (non-negative widths): once the overflow cost
            // alone exceeds the best total found for j, no smaller i can win
            if i > 0 && width > target && pen.overflow > 0.0 && c >= b[j] {
                break;
            }
        }
    }
    b[n]
}

/// C18 reference: margin = longest common whitespace prefix of the lines that
/// contain a non-whitespace character.
pub fn ref_dedent_lines(s: &str) -> Vec<String> {
    let lines: Vec<&str> = s.lines().collect();
    let has_content = |l: &str| l.chars().any(|c| !c.is_whitespace());
    let lead = |l: &str| -> String { l.chars().take_while(|c| c.is_whitespace()).collect() };
    let mut m: Option<String> = None;
    for l in lines.iter().filter(|l| has_content(l)) {
        let p = lead(l);
        m = Some(match m {
            None => p,
            Some(q) => q.chars().zip(p.chars()).take_while(|(a, b)| a == b).map(|(a, _)| a).collect(),
        });
    }
    let m = m.unwrap_or_default();
    lines.iter().map(|l| if has_content(l) { l[m.len()..].to_string() } else { String::new() }).collect()
}

/// C19 reference.
pub fn ref_indent(s: &str, p: &str) -> String {
    let mut out = String::new();
    let mut rest = s;
    while !rest.is_empty() {
        let (line, nl, r) = match rest.find('\n') {
            Some(i) => (&rest[..i], true, &rest[i + 1..]),
            None => (rest, false, ""),
        };
        if line.chars().any(|c| !c.is_whitespace()) {
            out.push_str(p);
        } else {
            out.push_str(p.trim_end());
        }
        out.push_str(line);
        if nl {
            out.push('\n');
        }
        rest = r;
    }
    out
}
