//! Engine P: operation sequences over the real transition function
//! `textwrap::fuzzing::wrap_single_line` (one call per paragraph).  The state is
//! the real `Vec<Cow<str>>` reached by a history of paragraphs.
use super::*;
use serde_json::json;
use std::borrow::Cow;
use std::collections::HashMap;
use std::sync::Mutex;
use textwrap::wrap;

pub const MENU: &[&str] = &["", " ", "a", "aaaa bb", "a-b", "\u{4f60}\u{4f60}", "a  ", "\x1b[1ma", "( a"];

pub fn gamma() -> Gamma {
    Gamma {
        seps: seps(),
        algs: algs_default(),
        spls: vec![Spl::None, Spl::Hyphen],
        bws: vec![true, false],
        indents: vec![("", ""), (">", ""), ("", "> "), ("\u{4f60}", ">"), (">>>", "  "), ("\x1b[1m", "")],
        crlf: vec![false],
    }
}

pub const WIDTHS: &[usize] = &[0, 1, 2, 3, 4, 5, 7, usize::MAX];

/// Histories of paragraphs of length <= n through the real transition function.
/// `c08`: check the indent of every folded line; `c09`: abstraction consistency
/// (appended lines are a function of (paragraph, options, lines.is_empty())) and
/// fold == one-shot wrap(join(history)).
pub fn p_space(r: &mut Run, name: &str, n: usize, c08: bool, c09: bool) -> Result<(), MachineryError> {
    let bases = gamma().bases();
    let mut cfgs = vec![];
    for b in &bases {
        for &w in WIDTHS {
            cfgs.push(Cfg { width: w, ..*b });
        }
    }
    // abstraction table: (config index, paragraph index, first?) -> (appended lines, witness history)
    let table: Mutex<HashMap<(usize, u8, bool), (Vec<String>, Vec<u8>)>> = Mutex::new(HashMap::new());
    let space = Space {
        name: name.to_string(),
        menu: MENU.iter().map(|s| format!("{:?}", s)).collect(),
        max_len: n,
        desc: format!("histories of <= {} paragraphs from the menu, each transition one call of the real textwrap::fuzzing::wrap_single_line on the real Vec<Cow<str>> state; {} option records ({} x widths {:?})", n, cfgs.len(), gamma().describe(), WIDTHS),
    };
    r.space(space, |hist, cx| {
        let joined: String = hist.iter().map(|&pi| MENU[pi as usize]).collect::<Vec<_>>().join("\n");
        cx.set_input(&joined);
        if hist.is_empty() {
            return;
        }
        for (ci, cfg) in cfgs.iter().enumerate() {
            cx.eval();
            let o = cfg.opts();
            let d = || cfg.d();
            let res = cx.guard(|| {
                let mut lines: Vec<Cow<str>> = vec![];
                let mut before_last = 0;
                for (k, &pi) in hist.iter().enumerate() {
                    if k + 1 == hist.len() {
                        before_last = lines.len();
                    }
                    textwrap::fuzzing::wrap_single_line(MENU[pi as usize], &o, &mut lines);
                }
                (lines, before_last)
            });
            let (lines, before) = match res {
                Some(x) => x,
                None => continue,
            };
            cx.outcome(&lines);
            if hist.len() >= 2 {
                cx.nontrivial();
            }
            if c08 {
                let mut ok = true;
                let mut bad = 0;
                for (j, l) in lines.iter().enumerate() {
                    if !l.starts_with(if j == 0 { cfg.ii } else { cfg.si }) {
                        ok = false;
                        bad = j;
                        break;
                    }
                }
                cx.check("C08-indent(P)", ok, &d, &|| json!({"history": hist.iter().map(|&p| MENU[p as usize]).collect::<Vec<_>>(), "line_no": bad, "lines": lines.iter().map(|l| l.to_string()).collect::<Vec<_>>()}));
            }
            if c09 {
                let appended: Vec<String> = lines[before..].iter().map(|l| l.to_string()).collect();
                let key = (ci, *hist.last().unwrap(), before == 0);
                let prev = {
                    let mut t = table.lock().unwrap();
                    match t.get(&key) {
                        None => {
                            t.insert(key, (appended.clone(), hist.to_vec()));
                            None
                        }
                        Some(p) => Some(p.clone()),
                    }
                };
                match prev {
                    Some((prev, wit)) => cx.check("C09-transition-depends-only-on-(paragraph,options,first)", prev == appended, &d, &|| json!({"paragraph": MENU[*hist.last().unwrap() as usize], "history": hist, "appended": appended, "other_history": wit, "appended_there": prev})),
                    None => cx.pass("C09-transition-depends-only-on-(paragraph,options,first)"),
                }
                if let Some(one) = cx.guard(|| wrap(&joined, &o)) {
                    cx.check("C09-fold-eq-oneshot", one == lines, &d, &|| json!({"history": hist, "fold": lines.iter().map(|l| l.to_string()).collect::<Vec<_>>(), "wrap(join)": one.iter().map(|l| l.to_string()).collect::<Vec<_>>()}));
                }
            }
            if cx.want_sample() && hist.len() >= 2 {
                cx.sample(&|| json!({"history": hist.iter().map(|&p| MENU[p as usize]).collect::<Vec<_>>(), "config": cfg.d(), "state_after": lines.iter().map(|l| l.to_string()).collect::<Vec<_>>()}));
            }
        }
    })
}
