//! Scale probes: the small-scope spaces bound every input to a handful of symbols.  Thresholds
//! that only matter for *long* inputs (the 257th line, the 1025th fragment, the 4097th word, the
//! 65 536th line) are reached by enumerating periodic inputs: every period of length <= 2 over a
//! tiny menu, repeated to each length of a list that brackets the powers of two up to 2^16.  The
//! oracles are the linear-time ones (partition, greedy rule, in-order slices, width bound) plus
//! the O(n^2) optimum for n <= 1025.
use super::fragspace::*;
use super::*;
use serde_json::json;
use textwrap::wrap_algorithms::wrap_first_fit;
use textwrap::{fill, fill_inplace, wrap, Options, WordSeparator, WordSplitter, WrapAlgorithm};

pub fn lengths(t: Tier, cap: usize) -> Vec<usize> {
    let mut v = vec![];
    for k in [8usize, 9, 10, 11, 12, 16] {
        let p = 1usize << k;
        for n in [p - 1, p, p + 1, p + 2] {
            if n <= cap && (t == Tier::Thorough || k <= 12) {
                v.push(n);
            }
        }
    }
    v.push(600);
    v.retain(|&n| n <= cap);
    v.sort();
    v.dedup();
    v
}

fn frag_patterns() -> Vec<Vec<Frag>> {
    let m = [Frag { w: 1.0, ws: 1.0, p: 0.0 }, Frag { w: 3.0, ws: 1.0, p: 0.0 }, Frag { w: 0.0, ws: 0.0, p: 0.0 }, Frag { w: 2.0, ws: 0.0, p: 1.0 }];
    let mut v: Vec<Vec<Frag>> = m.iter().map(|f| vec![*f]).collect();
    for a in &m {
        for b in &m {
            if a != b {
                v.push(vec![*a, *b]);
            }
        }
    }
    v
}

fn width_lists() -> Vec<Vec<f64>> {
    vec![vec![4.0], vec![9.0], vec![24.0, 9.0], vec![3.0, 9.0], vec![4000.0, 9.0], vec![1e9], vec![0.0], vec![12.0, 9.0, 6.0, 3.0]]
}

/// C06 / C07 / C03 on long periodic fragment sequences.  `what`: "C06", "C07" or "C03".
pub fn frag_scale(r: &mut Run, name: &str, what: &'static str) -> Result<(), MachineryError> {
    let t = r.tier;
    let pats = frag_patterns();
    let cap = if what == "C03" { 1026 } else { 70_000 };
    let lens = lengths(t, cap);
    let lists: Vec<Vec<f64>> = if what == "C03" { vec![vec![4.0], vec![9.0], vec![24.0, 9.0], vec![3.0, 9.0]] } else { width_lists() };
    let n_cases = (pats.len() * lens.len()) as u64;
    let lens2 = lens.clone();
    r.range(name, &format!("long periodic fragment sequences: {} periods of length <= 2 over (w,ws,pen) in {{(1,1,0),(3,1,0),(0,0,0),(2,0,1)}}, repeated to each length in {:?}; line-width lists {:?}", pats.len(), lens, lists), n_cases, move |i, cx| {
        let pat = &pats[(i as usize) / lens2.len()];
        let n = lens2[(i as usize) % lens2.len()];
        let fr: Vec<Frag> = (0..n).map(|k| pat[k % pat.len()]).collect();
        cx.seq = idx_seq(i);
        cx.set_input(&format!("period [{}] repeated to n={}", frags_str(pat), n));
        for lw in &lists {
            cx.eval();
            cx.nontrivial();
            let d = || format!("line_widths={:?}", lw);
            match what {
                "C07" => {
                    if let Some(got) = cx.guard(|| wrap_first_fit(&fr, lw).iter().map(|l| l.len()).collect::<Vec<usize>>()) {
                        let exp = ref_first_fit(&fr, lw);
                        let first_diff = got.iter().zip(&exp).position(|(a, b)| a != b);
                        cx.check("C07-fragments-greedy-rule(long)", got == exp, &d, &|| json!({"lines": got.len(), "expected_lines": exp.len(), "first_differing_line": first_diff}));
                    }
                }
                "C06" => {
                    if let Some(lines) = cx.guard(|| wrap_first_fit(&fr, lw)) {
                        let v = partition_of(&fr, &lines);
                        cx.check("C06-first-fit-partition(long)", v.is_ok(), &d, &|| json!({"why": v.clone().err(), "lines": lines.len()}));
                    }
                    #[cfg(feature = "full")]
                    {
                        let pen = penalties(DEFAULT_PEN);
                        if let Some(Ok(lines)) = cx.guard(|| textwrap::wrap_algorithms::wrap_optimal_fit(&fr, lw, &pen)) {
                            let v = partition_of(&fr, &lines);
                            cx.check("C06-optimal-fit-partition(long)", v.is_ok(), &d, &|| json!({"why": v.clone().err(), "lines": lines.len()}));
                        }
                    }
                }
                _ => {
                    #[cfg(feature = "full")]
                    {
                        // precondition of C03: pen_i <= w_(i+1)
                        if !(0..fr.len().saturating_sub(1)).all(|k| fr[k].p <= fr[k + 1].w) {
                            return;
                        }
                        for p in [DEFAULT_PEN, [3, 7, 2, 5, 0]] {
                            let pen_real = penalties(p);
                            if let Some(Ok(lens)) = cx.guard(|| textwrap::wrap_algorithms::wrap_optimal_fit(&fr, lw, &pen_real).map(|ls| ls.iter().map(|l| l.len()).collect::<Vec<usize>>())) {
                                if lens.iter().sum::<usize>() != fr.len() || lens.iter().any(|&l| l == 0) {
                                    continue;
                                }
                                let pen = pen_of(p);
                                let got = ref_arrangement_cost(&fr, &lens, lw, &pen);
                                let best = ref_optimum_dp_fast(&fr, lw, &pen);
                                if fr.len() <= 300 {
                                    assert!(best == ref_optimum_dp(&fr, lw, &pen), "reference self-check failed: fast DP differs from plain DP");
                                }
                                cx.check("C03-minimum-cost(long)", got == best, &|| format!("line_widths={:?} penalties={:?}", lw, p), &|| json!({"lines": lens.len(), "cost": got, "minimum": best}));
                            }
                        }
                    }
                }
            }
        }
        if cx.want_sample() {
            cx.sample(&|| json!({"period": frags_str(pat), "n": n}));
        }
    })
}

fn word_patterns() -> Vec<Vec<&'static str>> {
    vec![vec!["ab"], vec!["ab", "cde"], vec!["f", "\u{4f60}\u{597d}"], vec!["abcdefghij", "k"], vec!["x-y", "ab"]]
}

/// Text-level probes on one long paragraph: `what` in {"C01", "C02", "C07", "C09", "C17"}.
pub fn text_scale(r: &mut Run, name: &str, what: &'static str) -> Result<(), MachineryError> {
    let t = r.tier;
    let pats = word_patterns();
    let mut lens = lengths(t, if t == Tier::Quick { 4200 } else { 70_000 });
    if t == Tier::Quick {
        lens.push(65_537); // three lines or more at the 65 537-column width for every word pattern (first-fit only)
    }
    let lens2 = lens.clone();
    let n_cases = (pats.len() * lens.len()) as u64;
    // widths around the 8-, 16- and 32-bit boundaries as well as everyday ones: a width that is
    // narrowed on its way to the wrap algorithm shows only beyond such a boundary
    let widths: Vec<usize> = if t == Tier::Quick { vec![20, 72, 256, 65_537] } else { vec![20, 72, 255, 256, 257, 1000, 65_535, 65_536, 65_537, (1usize << 32) + 1] };
    r.range(name, &format!("one paragraph of n words, n in {:?}, the words cycling through each of {:?}, joined by single spaces; widths {:?} x separators x algorithms x break_words x indent pairs {{(\"\",\"\"), (\"> \",\"  \")}}", lens, pats, widths), n_cases, move |i, cx| {
        let pat = &pats[(i as usize) / lens2.len()];
        let n = lens2[(i as usize) % lens2.len()];
        let text: String = (0..n).map(|k| pat[k % pat.len()]).collect::<Vec<_>>().join(" ");
        cx.seq = idx_seq(i);
        cx.set_input(&format!("{} words cycling {:?}", n, pat));
        if what == "C17" {
            for &w in &widths {
                cx.eval();
                cx.nontrivial();
                let d = || format!("width={}", w);
                let res = cx.guard(|| {
                    let mut s = text.clone();
                    fill_inplace(&mut s, w);
                    let o = Options::new(w).break_words(false).word_separator(WordSeparator::AsciiSpace).wrap_algorithm(WrapAlgorithm::FirstFit).word_splitter(WordSplitter::NoHyphenation);
                    let lines: Vec<String> = wrap(&text, o).iter().map(|l| l.to_string()).collect();
                    (s, lines)
                });
                if let Some((s, lines)) = res {
                    let same = s.len() == text.len() && s.bytes().zip(text.bytes()).all(|(a, b)| a == b || (b == b' ' && a == b'\n'));
                    cx.check("C17-only-spaces-become-newlines(long)", same, &d, &|| json!({"len_after": s.len(), "len_before": text.len()}));
                    let got: Vec<String> = s.split('\n').map(|l| l.trim_end_matches(' ').to_string()).collect();
                    let first_diff = got.iter().zip(&lines).position(|(a, b)| a != b);
                    cx.check("C17-agrees-with-wrap(long)", got == lines, &d, &|| json!({"lines_inplace": got.len(), "lines_wrap": lines.len(), "first_differing_line": first_diff}));
                }
            }
            return;
        }
        let g = Gamma { seps: seps(), algs: if what == "C02" || what == "C07" { vec![Alg::FirstFit] } else { algs_default() }, spls: vec![if what == "C07" { Spl::None } else { Spl::Hyphen }], bws: vec![true, false], indents: vec![("", ""), ("> ", "  ")], crlf: vec![false] };
        for base in g.bases() {
            // C07 compares with a greedy rule over the space-separated words: under the Unicode
            // separator that is the fragment sequence only when no word has an inner break
            if t == Tier::Quick && n > 5000 && !base.is_ff() {
                continue;
            }
            if what == "C07" && base.is_uni() && pat.iter().any(|w| !w.bytes().all(|b| b.is_ascii_alphabetic())) {
                continue;
            }
            for &w in &widths {
                cx.eval();
                cx.nontrivial();
                let cfg = Cfg { width: w, ..base };
                let o = cfg.opts();
                let d = || cfg.d();
                let lines = match cx.guard(|| wrap(&text, &o)) {
                    Some(l) => l,
                    None => continue,
                };
                match what {
                    "C01" => {
                        // linear in-order slice walk (no empty lines can occur here: no ambiguity)
                        let mut cursor = 0usize;
                        let mut why = String::new();
                        for (j, l) in lines.iter().enumerate() {
                            let ind = if j == 0 { cfg.ii } else { cfg.si };
                            let content = match l.strip_prefix(ind) {
                                Some(c) => c,
                                None => {
                                    why = format!("line {} lacks its indent", j);
                                    break;
                                }
                            };
                            while text[cursor..].starts_with(' ') {
                                cursor += 1;
                            }
                            if !text[cursor..].starts_with(content) {
                                why = format!("line {} ({:?}) is not the next slice of the text (cursor at byte {})", j, content, cursor);
                                break;
                            }
                            if ind.is_empty() {
                                if let std::borrow::Cow::Borrowed(b) = l {
                                    if !b.is_empty() && b.as_ptr() as usize != text.as_ptr() as usize + cursor {
                                        why = format!("line {} is borrowed from a different place than its slice", j);
                                        break;
                                    }
                                } else {
                                    why = format!("line {} is owned although it has no indent", j);
                                    break;
                                }
                            }
                            cursor += content.len();
                            if content.ends_with(' ') {
                                why = format!("line {} ends in a space", j);
                                break;
                            }
                        }
                        if why.is_empty() && !text[cursor..].bytes().all(|b| b == b' ') {
                            why = format!("text after byte {} is not covered by any line", cursor);
                        }
                        cx.check("C01-slices-in-order(long)", why.is_empty(), &d, &|| json!({"why": why, "lines": lines.len()}));
                    }
                    "C07" => {
                        // the fragments are the words (no splitter, nothing to force-break: every
                        // word is at most 10 columns wide), each followed by one space
                        let words: Vec<&str> = text.split(' ').collect();
                        let fr: Vec<Frag> = words.iter().map(|x| Frag { w: ref_width(x) as f64, ws: 1.0, p: 0.0 }).collect();
                        let lw = [w.saturating_sub(ref_width(cfg.ii)) as f64, w.saturating_sub(ref_width(cfg.si)) as f64];
                        let exp = ref_first_fit(&fr, &lw);
                        let mut k = 0usize;
                        let mut bad = None;
                        for (j, l) in lines.iter().enumerate() {
                            let ind = if j == 0 { cfg.ii } else { cfg.si };
                            let want = exp.get(j).map(|&c| format!("{}{}", ind, words[k..k + c].join(" ")));
                            if want.as_deref() != Some(&**l) {
                                bad = Some(j);
                                break;
                            }
                            k += exp[j];
                        }
                        if bad.is_none() && lines.len() != exp.len() {
                            bad = Some(lines.len().min(exp.len()));
                        }
                        cx.check("C07-text-greedy-rule(long)", bad.is_none(), &d, &|| json!({"first_differing_line": bad, "lines": lines.len(), "greedy_rule_lines": exp.len(), "line": bad.and_then(|b| lines.get(b)).map(|l| l.to_string())}));
                    }
                    "C02" => {
                        // every word is at most 10 columns wide, so every line must fit
                        let bad = lines.iter().position(|l| ref_width(l) > w);
                        cx.check("C02-fits(long)", bad.is_none(), &d, &|| json!({"line_no": bad, "line": bad.map(|b| lines[b].to_string())}));
                    }
                    _ => {
                        if let Some(f) = cx.guard(|| fill(&text, &o)) {
                            cx.check("C09-fill-eq-join(long)", f == lines.join("\n"), &d, &|| json!({"fill_len": f.len(), "lines": lines.len()}));
                        }
                    }
                }
            }
        }
        if cx.want_sample() {
            cx.sample(&|| json!({"words": n, "pattern": pat}));
        }
    })
}

/// C03 on long paragraphs *through the public pipeline* (`wrap` with `WrapAlgorithm::OptimalFit`,
/// i.e. through `WrapAlgorithm::wrap`'s usize -> f64 dispatch, which the fragment-level probes
/// bypass): every period of <= 3 word lengths from {1,2,3,5,9} repeated to n words, n around the
/// powers of two from 2^7, at three widths.  Oracle: cost of the returned arrangement == the
/// minimum over all arrangements (prefix-sum DP, self-checked against the plain DP for n <= 300).
#[cfg(feature = "full")]
pub fn text_scale_c03(r: &mut Run, name: &str) -> Result<(), MachineryError> {
    let t = r.tier;
    let wl = [1usize, 2, 3, 5, 9];
    let mut pats: Vec<Vec<usize>> = vec![];
    for &a in &wl {
        pats.push(vec![a]);
        for &b in &wl {
            if a != b {
                pats.push(vec![a, b]);
            }
            for &c in &wl {
                if !(a == b && b == c) {
                    pats.push(vec![a, b, c]);
                }
            }
        }
    }
    let lens: Vec<usize> = if t == Tier::Quick { vec![127, 129, 200, 257, 300] } else { vec![64, 127, 128, 129, 130, 200, 255, 256, 257, 300, 513, 1025, 2049] };
    let widths = [20usize, 37, 60];
    let indents: [(&'static str, &'static str); 2] = [("", ""), ("> ", "\u{2502}   ")];
    let lens2 = lens.clone();
    let n_cases = (pats.len() * lens.len()) as u64;
    r.range(name, &format!("one paragraph of n words, n in {:?}, word lengths cycling through every period of <= 3 lengths from {:?} ({} periods), single spaces; wrap with OptimalFit(default penalties) x separators x widths {:?} x indent pairs {:?}, no splitter, break_words off", lens, wl, pats.len(), widths, indents), n_cases, move |i, cx| {
        let pat = &pats[(i as usize) / lens2.len()];
        let n = lens2[(i as usize) % lens2.len()];
        let words: Vec<String> = (0..n).map(|k| "x".repeat(pat[k % pat.len()])).collect();
        let text = words.join(" ");
        let fr: Vec<Frag> = words.iter().map(|w| Frag { w: w.len() as f64, ws: 1.0, p: 0.0 }).collect();
        cx.seq = idx_seq(i);
        cx.set_input(&format!("{} words with lengths cycling {:?}", n, pat));
        let pen = pen_of(DEFAULT_PEN);
        for sep in seps() {
            for &(ii, si) in &indents {
                for &w in &widths {
                    cx.eval();
                    cx.nontrivial();
                    let cfg = Cfg { entry: Entry::Ref, width: w, sep, alg: Alg::Opt(DEFAULT_PEN), spl: Spl::None, bw: false, ii, si, crlf: false };
                    let o = cfg.opts();
                    let d = || cfg.d();
                    let lines = match cx.guard(|| wrap(&text, &o)) {
                        Some(l) => l,
                        None => continue,
                    };
                    let mut lens_got = vec![];
                    let mut shape_ok = true;
                    for (j, l) in lines.iter().enumerate() {
                        match l.strip_prefix(if j == 0 { ii } else { si }) {
                            Some(c) if !c.is_empty() => lens_got.push(c.split(' ').count()),
                            _ => shape_ok = false,
                        }
                    }
                    if !shape_ok || lens_got.iter().sum::<usize>() != n {
                        cx.note("C03-long-paragraph-lines-not-mappable(C01's business)");
                        continue;
                    }
                    let lw = [w.saturating_sub(ref_width(ii)) as f64, w.saturating_sub(ref_width(si)) as f64];
                    let got = ref_arrangement_cost(&fr, &lens_got, &lw, &pen);
                    let best = ref_optimum_dp_fast(&fr, &lw, &pen);
                    if n <= 300 && w == 20 {
                        assert!(best == ref_optimum_dp(&fr, &lw, &pen), "reference self-check failed: fast DP differs from plain DP");
                    }
                    cx.check("C03-text-minimum-cost(long)", got == best, &d, &|| json!({"lines": lens_got.len(), "cost": got, "minimum": best}));
                }
            }
        }
        if cx.want_sample() {
            cx.sample(&|| json!({"words": n, "pattern": pat}));
        }
    })
}
