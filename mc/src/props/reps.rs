//! Class representatives and *pairs* of them (DESIGN.md §0, "pairs of class representatives").
//!
//! The all-characters passes put every scalar value into fixed contexts made of ASCII letters,
//! i.e. they cover "one unusual character".  What they cannot reach is an interaction between
//! *two* unusual characters (a combining mark after a wide character, a zero-width joiner between
//! emoji, a no-break space before a soft hyphen, a control character next to a CJK character).
//! This module computes, from the same tables the properties are stated against, one
//! representative (the first and the last member) of every class of scalar values the library
//! could distinguish — (UAX #14 class, column width, UTF-8 length, is_whitespace,
//! is_alphanumeric, is_control, last UTF-8 byte == 0xAD) — plus a hand-picked list of characters
//! with a role of their own, and enumerates all ordered pairs (thorough: also triples over the
//! first members) of them.

use super::*;
use std::sync::OnceLock;

/// characters that play a role of their own in the library or in terminals
const NAMED: &[char] = &[
    ' ', '-', '\t', '\n', '\r', '\x07', '\x0b', '\x0c', '\\', '[', ']', 'm', ';', '~', '@', '\u{85}', '\u{a0}', '\u{ad}', '\u{300}', '\u{34f}', '\u{1100}', '\u{1161}', '\u{11a8}', '\u{2007}', '\u{200b}', '\u{200c}', '\u{200d}', '\u{2010}', '\u{2011}', '\u{2014}', '\u{2028}', '\u{2029}', '\u{202f}',
    '\u{2060}', '\u{3000}', '\u{3001}', '\u{fe0f}', '\u{feff}', '\u{ff0d}', '\u{1f1e6}', '\u{1f3fb}', '\u{1f600}', '\u{e0001}', '\u{e0100}',
];

type Sig = (u8, usize, usize, bool, bool, bool, bool);

fn sig(c: char) -> Sig {
    #[cfg(feature = "full")]
    let lb = unicode_linebreak::break_property(c as u32) as u8;
    #[cfg(not(feature = "full"))]
    let lb = 0u8;
    let mut buf = [0u8; 4];
    let enc = c.encode_utf8(&mut buf);
    (lb, ref_char_width(c), c.len_utf8(), c.is_whitespace(), c.is_alphanumeric(), c.is_control(), *enc.as_bytes().last().unwrap() == 0xAD)
}

struct Reps {
    /// first member of every class, then the named characters, then the last member of every class
    all: Vec<char>,
    /// number of first members (prefix of `all`)
    firsts: usize,
    classes: usize,
}

fn reps() -> &'static Reps {
    static R: OnceLock<Reps> = OnceLock::new();
    R.get_or_init(|| {
        let mut first: std::collections::BTreeMap<Sig, (char, char)> = Default::default();
        for u in 0..0x110000u32 {
            if let Some(c) = char::from_u32(u) {
                if c == '\x1b' {
                    continue; // ESC starts a sequence; the escape grammar has spaces of its own
                }
                let e = first.entry(sig(c)).or_insert((c, c));
                e.1 = c;
            }
        }
        let mut firsts: Vec<char> = first.values().map(|p| p.0).collect();
        firsts.sort();
        let mut all = firsts.clone();
        let nf = firsts.len();
        for &c in NAMED {
            if !all.contains(&c) {
                all.push(c);
            }
        }
        let mut lasts: Vec<char> = first.values().map(|p| p.1).collect();
        lasts.sort();
        for c in lasts {
            if !all.contains(&c) {
                all.push(c);
            }
        }
        Reps { all, firsts: nf, classes: first.len() }
    })
}

pub fn rep_chars() -> &'static [char] {
    &reps().all
}

pub fn rep_firsts() -> &'static [char] {
    &reps().all[..reps().firsts]
}

pub fn reps_desc() -> String {
    let r = reps();
    format!(
        "{} representative characters: the first and the last member of each of the {} classes of scalar values under (UAX #14 class, column width, UTF-8 length, is_whitespace, is_alphanumeric, is_control, last UTF-8 byte 0xAD) and {} named characters (space, hyphens, TAB, LF, CR, BEL, VT, FF, NEL, NBSP, SHY, combining marks, Hangul jamo L/V/T, ZWSP, ZWNJ, ZWJ, LS, PS, NNBSP, WJ, ideographic space, VS16, BOM, regional indicator, skin-tone modifier, tag, ...); ESC excluded",
        r.all.len(),
        r.classes,
        NAMED.len()
    )
}

/// All ordered pairs over the representative characters; quick: first members and named
/// characters paired with everything (both orders), thorough: everything with everything.
pub fn pair_space(t: Tier) -> u64 {
    let n = rep_chars().len() as u64;
    match t {
        Tier::Quick => {
            let k = (reps().firsts + NAMED.len()).min(rep_chars().len()) as u64;
            k * k
        }
        Tier::Thorough => n * n,
    }
}

pub fn pair_at(t: Tier, i: u64) -> (char, char) {
    let all = rep_chars();
    let n = match t {
        Tier::Quick => (reps().firsts + NAMED.len()).min(all.len()) as u64,
        Tier::Thorough => all.len() as u64,
    };
    (all[(i / n) as usize], all[(i % n) as usize])
}

pub fn pair_desc(t: Tier) -> String {
    match t {
        Tier::Quick => format!("all ordered pairs over the first-of-class and named characters among {}", reps_desc()),
        Tier::Thorough => format!("all ordered pairs over {}", reps_desc()),
    }
}

/// All ordered triples over the first members of the classes (thorough tier only; the quick tier
/// gets the triples over the named characters).
pub fn triple_space(t: Tier) -> u64 {
    let n = triple_base(t).len() as u64;
    n * n * n
}

fn triple_base(t: Tier) -> Vec<char> {
    match t {
        Tier::Quick => NAMED.to_vec(),
        Tier::Thorough => {
            let mut v = rep_firsts().to_vec();
            for &c in NAMED {
                if !v.contains(&c) {
                    v.push(c);
                }
            }
            v
        }
    }
}

pub fn triple_at(base: &[char], i: u64) -> (char, char, char) {
    let n = base.len() as u64;
    (base[(i / (n * n)) as usize], base[((i / n) % n) as usize], base[(i % n) as usize])
}

pub fn triple_chars(t: Tier) -> Vec<char> {
    triple_base(t)
}

pub fn triple_desc(t: Tier) -> String {
    match t {
        Tier::Quick => format!("all ordered triples over the {} named characters of the representative set", NAMED.len()),
        Tier::Thorough => format!("all ordered triples over the first member of every class and the named characters ({} characters) among {}", triple_base(t).len(), reps_desc()),
    }
}

/// Wrap-level oracles on every ordered pair of representative characters in fixed text contexts.
pub fn char_pair_space(r: &mut Run, name: &str, mask: u32, algs: Vec<Alg>) -> Result<(), MachineryError> {
    let t = r.tier;
    let g = Gamma { seps: seps(), algs, spls: vec![Spl::Hyphen], bws: vec![true, false], indents: vec![("", ""), (">", "")], crlf: vec![false] };
    let bases = g.bases();
    r.range(name, &format!("{}; each pair (x,y) in the texts \"xy yx\", \"axy b-xy\"; {}; widths 0..=6, MAX", pair_desc(t), g.describe()), pair_space(t), move |i, cx| {
        let (x, y) = pair_at(t, i);
        cx.seq = idx_seq(i);
        for text in [format!("{x}{y} {y}{x}"), format!("a{x}{y} b-{x}{y}")] {
            cx.set_input(&text);
            for base in &bases {
                for w in (0..=6).chain([usize::MAX]) {
                    check_wrap(&text, &Cfg { width: w, ..*base }, mask, cx);
                }
            }
        }
    })
}
