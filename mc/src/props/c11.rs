//! C11 — word finding is lossless and breaks exactly where specified (DESIGN.md §5/C11).
use super::*;
use serde_json::json;
use textwrap::core::Word;
use textwrap::WordSeparator;

pub fn def() -> PropDef {
    PropDef {
        id: "C11",
        builds: BOTH,
        rule: "every line over a 20-symbol mixed menu (spaces, tab, NBSP, ZWSP, word joiner, CJK, emoji, hyphen, soft hyphen, CR, LF, CSI and OSC sequences, digit, punctuation) up to length N, both separators (Unicode in the full build); non-trivial = a line with >= 2 words under some separator",
        assumptions: BASE_ASSUMPTIONS,
        floor: |t| t.pick(10_000, 30_000),
        run,
    }
}

pub fn check_line(line: &str, cx: &mut Cx) {
    let mut seps_v = vec![("ascii", WordSeparator::AsciiSpace)];
    #[cfg(feature = "full")]
    seps_v.push(("unicode", WordSeparator::UnicodeBreakProperties));
    let vis = ref_visible(line);
    for (sepname, sep) in seps_v {
        cx.eval();
        let d = || format!("separator={}", sepname);
        let words: Vec<Word> = match cx.guard(|| sep.find_words(line).collect()) {
            Some(w) => w,
            None => continue,
        };
        let wj = || json!(words.iter().map(|w| json!([w.word, w.whitespace, w.penalty, w.width])).collect::<Vec<_>>());
        let mut cat = String::new();
        let mut bounds = vec![];
        let mut shape_ok = true;
        for (k, w) in words.iter().enumerate() {
            if k > 0 {
                bounds.push(cat.len());
            }
            cat.push_str(w.word);
            cat.push_str(w.whitespace);
            let width_ok = match ref_visible(w.word) {
                Some(v) => w.width == v.width(),
                None => true, // malformed / cut sequence: width not defined by the statement
            };
            if !w.whitespace.bytes().all(|c| c == b' ') || w.word.ends_with(' ') || !width_ok || !w.penalty.is_empty() {
                shape_ok = false;
            }
        }
        cx.outcome(&bounds);
        if words.len() >= 2 {
            cx.nontrivial();
            if cx.want_sample() {
                cx.sample(&|| json!({"line": line, "separator": sepname, "words": wj()}));
            }
        }
        cx.check("C11-lossless", cat == line, &d, &|| json!({"words": wj()}));
        cx.check("C11-word-shape", shape_ok, &d, &|| json!({"words": wj(), "note": "whitespace must be spaces only, word must not end in a space, width must equal the display width, penalty must be empty"}));
        if cat != line {
            continue;
        }
        // an empty first word (leading whitespace) makes a boundary at 0 impossible; boundaries are the starts of words 2..
        if sepname == "ascii" {
            let exp = ref_bounds_ascii(line);
            cx.check("C11-ascii-boundaries", bounds == exp, &d, &|| json!({"boundaries": bounds, "expected": exp, "words": wj()}));
        } else {
            #[cfg(feature = "full")]
            if let Some(vis) = &vis {
                let stripped = vis.stripped();
                let exp = ref_bounds_unicode_stripped(&stripped);
                let got: Vec<usize> = bounds.iter().map(|&b| vis.stripped_offset(b)).collect();
                let inside = bounds.iter().any(|&b| vis.inside_seq(b));
                cx.check("C11-unicode-boundaries", got == exp, &d, &|| json!({"boundaries(stripped coordinates)": got, "expected": exp, "words": wj()}));
                cx.check("C11-no-boundary-inside-sequence", !inside, &d, &|| json!({"boundaries": bounds, "sequences": vis.seqs}));
            } else {
                cx.note("C11-malformed-line(lossless and shape only)");
            }
        }
    }
    let _ = vis;
}

fn run(r: &mut Run) -> Result<(), MachineryError> {
    let t = r.tier;
    let alpha = [L, SP, HY, W, CM, TAB, NB, ZW, WJ, SHY, EM, OP, CL, CR, NL, CSI, OSS, E2, D, DOT];
    let n = t.pick(4, 6);
    let space = Space { name: "C11/lines".into(), menu: menu(&alpha), max_len: n, desc: format!("lines of length <= {} x both separators", n) };
    r.space(space, |seq, cx| {
        let line = build(seq, &alpha);
        cx.set_input(&line);
        check_line(&line, cx);
    })?;
    // every character in fixed contexts (catches byte/char confusions and table entries that
    // behave unlike their class representative)
    let t2 = t;
    r.range("C11/all-characters-in-context", &format!("{}; each in the lines \"cc\", \"acb\", \"c c\", \"a-c\", \"c-b\", \"a c\", \"ESC]0;c BEL a b-c d\" x both separators", scalar_desc(t)), scalar_space(t), move |i, cx| {
        let c = match scalar_at(t2, i) {
            Some(c) if c != '\x1b' => c,
            _ => return,
        };
        cx.seq = idx_seq(i);
        for line in [format!("{c}{c}"), format!("a{c}b"), format!("{c} {c}"), format!("a-{c}"), format!("{c}-b"), format!("a {c}"), format!("\x1b]0;{c}\x07a b-c d")] {
            cx.set_input(&line);
            check_line(&line, cx);
        }
    })?;
    // two and three unusual characters next to each other (the all-characters pass above has one)
    r.range("C11/representative-pairs", &format!("{}; each pair (x,y) in the lines \"xy\", \"axyb\", \"x y\", \"xy-yx z\", \"yx xy\" x both separators", reps::pair_desc(t)), reps::pair_space(t), move |i, cx| {
        let (x, y) = reps::pair_at(t2, i);
        cx.seq = idx_seq(i);
        for line in [format!("{x}{y}"), format!("a{x}{y}b"), format!("{x} {y}"), format!("{x}{y}-{y}{x} z"), format!("{y}{x} {x}{y}")] {
            cx.set_input(&line);
            check_line(&line, cx);
        }
    })?;
    let tb = reps::triple_chars(t);
    r.range("C11/representative-triples", &format!("{}; each triple (x,y,z) as the lines \"xyz\" and \"ax yzb\" x both separators", reps::triple_desc(t)), reps::triple_space(t), move |i, cx| {
        let (x, y, z) = reps::triple_at(&tb, i);
        cx.seq = idx_seq(i);
        for line in [format!("{x}{y}{z}"), format!("a{x} {y}{z}b")] {
            cx.set_input(&line);
            check_line(&line, cx);
        }
    })?;
    // the escape grammar's byte ranges (bytes 0x21..=0x7F as CSI final / OSC payload byte)
    r.range("C11/escape-grammar-scan", "for every byte b in 0x21..=0x7F the lines \"ESC[1bX12 345\" and \"ESC]8bX BEL 12 345\" x both separators", 95 * 2, move |i, cx| {
        let b = (0x21 + (i % 95)) as u8 as char;
        let line = if i / 95 == 0 { format!("\x1b[1{b}X12 345") } else { format!("\x1b]8{b}X\x0712 345") };
        cx.seq = idx_seq(i);
        cx.set_input(&line);
        check_line(&line, cx);
    })?;
    // deeper over the symbols that drive the state machines (spaces, hyphens, sequences, wide)
    let core = [L, SP, HY, W, SHY, CSI, OSB, TAB, ZW, CSIT, CSIL];
    let n = t.pick(5, 7);
    let space = Space { name: "C11/lines-core-deeper".into(), menu: menu(&core), max_len: n, desc: format!("lines of length <= {} over the 11 symbols that drive the separators' state (incl. a CSI ending in '~' and a 37-byte SGR sequence) x both separators", n) };
    r.space(space, |seq, cx| {
        let line = build(seq, &core);
        cx.set_input(&line);
        check_line(&line, cx);
    })
}
