//! C18 — dedent removes exactly the longest common whitespace margin (DESIGN.md §5/C18).
use super::*;
use serde_json::json;
use textwrap::{dedent, indent};

pub fn def() -> PropDef {
    PropDef {
        id: "C18",
        builds: BOTH,
        rule: "every text over {SP,SP SP,TAB,L,NL,CRLF,NBSP,SHY (non-whitespace sharing NBSP's UTF-8 lead byte)} and every scalar value in four margin/blank-line/content contexts up to length N; dedent compared line-wise with the reference (margin = longest common whitespace prefix of the lines containing a non-whitespace character); newline count preserved; idempotence (no line ending in a lone CR); dedent(indent(s,p)) == dedent(s) for 4 whitespace prefixes (CR-free s); non-trivial = >= 2 lines with content and a non-empty margin on at least one of them",
        assumptions: BASE_ASSUMPTIONS,
        floor: |t| t.pick(10_000, 30_000),
        run,
    }
}

/// compare an output with expected lines, tolerating kept CRLF endings
fn same_lines(out: &str, expected: &[String], final_newline: bool) -> bool {
    let mut pieces: Vec<&str> = out.split('\n').collect();
    if final_newline {
        if pieces.last() != Some(&"") {
            return false;
        }
        pieces.pop();
    }
    if expected.is_empty() {
        return pieces.is_empty() || pieces == [""];
    }
    pieces.len() == expected.len() && pieces.iter().zip(expected).all(|(p, e)| *p == e.as_str() || p.strip_suffix('\r') == Some(e.as_str()))
}

fn run(r: &mut Run) -> Result<(), MachineryError> {
    let t = r.tier;
    let alpha = [SP, SP2, TAB, L, NL, CRLF, NB, SHY];
    let n = t.pick(7, 9);
    let space = Space { name: "C18/texts".into(), menu: menu(&alpha), max_len: n, desc: format!("texts of length <= {}", n) };
    r.space(space, |seq, cx| {
        let s = build(seq, &alpha);
        cx.set_input(&s);
        check_text(&s, cx);
    })?;
    // every character as margin, as blank line and as content (catches whitespace-class confusions
    // such as u8::is_ascii_whitespace vs char::is_whitespace: VT, U+3000, ...)
    r.range("C18/all-characters-in-context", &format!("{}; each c in the texts \"c a\\nc b\", \" a\\nc\\n b\", \"  a\\n c b\\n\", \"cc a\\nc b\"", scalar_desc(t)), scalar_space(t), move |i, cx| {
        let c = match scalar_at(t, i) {
            Some(c) => c,
            None => return,
        };
        cx.seq = idx_seq(i);
        for s in [format!("{c} a\n{c} b"), format!(" a\n{c}\n b"), format!("  a\n {c} b\n"), format!("{c}{c} a\n{c} b")] {
            cx.set_input(&s);
            check_text(&s, cx);
        }
    })?;
    // two unusual characters as margin / blank line / content
    r.range("C18/representative-pairs", &format!("{}; each pair (x,y) in the texts \"xy a\\nxy b\", \"xy a\\nx b\", \" a\\nxy\\n b\", \"yxa\\nxyb\", \"x\\ty\\n\\tx\"", reps::pair_desc(t)), reps::pair_space(t), move |i, cx| {
        let (x, y) = reps::pair_at(t, i);
        cx.seq = idx_seq(i);
        for s in [format!("{x}{y} a\n{x}{y} b"), format!("{x}{y} a\n{x} b"), format!(" a\n{x}{y}\n b"), format!("{y}{x}a\n{x}{y}b"), format!("{x}\t{y}\n\t{x}")] {
            cx.set_input(&s);
            check_text(&s, cx);
        }
    })
}

fn check_text(s: &str, cx: &mut Cx) {
    {

        cx.eval();
        let d = || String::new();
        let out = match cx.guard(|| dedent(s)) {
            Some(x) => x,
            None => return,
        };
        cx.outcome(&out);
        let exp = ref_dedent_lines(s);
        let content_lines = s.lines().filter(|l| l.chars().any(|c| !c.is_whitespace())).count();
        if content_lines >= 2 && s.lines().any(|l| l.chars().any(|c| !c.is_whitespace()) && l.starts_with(|c: char| c.is_whitespace())) {
            cx.nontrivial();
            if cx.want_sample() {
                cx.sample(&|| json!({"input": s, "dedent": out}));
            }
        }
        cx.check("C18-matches-reference", same_lines(&out, &exp, s.ends_with('\n')), &d, &|| json!({"dedent": out, "expected_lines": exp, "final_newline": s.ends_with('\n')}));
        cx.check("C18-newline-count-preserved", out.matches('\n').count() == s.matches('\n').count(), &d, &|| json!({"dedent": out}));
        // idempotence, where no line ends in a lone CR
        let lone_cr_end = s.split('\n').any(|l| {
            let l = l.strip_suffix('\r').unwrap_or(l);
            l.ends_with('\r')
        }) || s.ends_with('\r');
        if !lone_cr_end {
            if let Some(dd) = cx.guard(|| dedent(&out)) {
                cx.check("C18-idempotent", dd == out, &d, &|| json!({"dedent": out, "dedent(dedent)": dd}));
            }
        }
        if !s.contains('\r') {
            for p in [" ", "\t", "  \t", "\u{a0} "] {
                if let Some(x) = cx.guard(|| dedent(&indent(s, p))) {
                    cx.check("C18-dedent-of-indent", x == out, &|| format!("prefix={:?}", p), &|| json!({"dedent(indent(s,p))": x, "dedent(s)": out}));
                }
            }
        }
    }
}
