//! C06 — both algorithms return an ordered partition of the fragments (DESIGN.md §5/C06).
use super::fragspace::*;
use super::*;
use serde_json::json;
use textwrap::wrap_algorithms::wrap_first_fit;

pub fn def() -> PropDef {
    PropDef {
        id: "C06",
        builds: BOTH,
        rule: "every fragment sequence over a finite-valued menu (zero, fractional, negative, huge) up to length n x 12 line-width lists (incl. the empty list and lists with an infinite width) x 3 penalty records; real wrap_first_fit and wrap_optimal_fit results checked for pointer-contiguous, non-empty, in-order, covering runs; non-trivial = a result with >= 2 lines",
        assumptions: BASE_ASSUMPTIONS,
        floor: |t| t.pick(10_000, 30_000),
        run,
    }
}

fn width_lists() -> Vec<Vec<f64>> {
    vec![vec![], vec![0.0], vec![3.0], vec![-1.0], vec![0.5], vec![2.0, 5.0], vec![1e300, 1.0], vec![1.0, 2.0, 3.0], vec![1e9], vec![f64::INFINITY], vec![2.0, f64::INFINITY], vec![f64::INFINITY, 2.0]]
}

fn space(r: &mut Run, name: &str, menu_f: Vec<Frag>, n: usize) -> Result<(), MachineryError> {
    let lists = width_lists();
    #[cfg(feature = "full")]
    let pens: Vec<[usize; 5]> = vec![DEFAULT_PEN, [0, 0, 1, 0, 0], [usize::MAX, usize::MAX, 0, usize::MAX, usize::MAX]];
    let sp = Space { name: name.into(), menu: frag_names(&menu_f), max_len: n, desc: format!("fragment sequences of length <= {} x line-width lists {:?} x penalties (default, all-zero, all-MAX with fraction 0); both algorithms (optimal-fit in the full build)", n, lists) };
    r.space(sp, |seq, cx| {
        let fr = frags_of(seq, &menu_f);
        cx.set_input(&frags_str(&fr));
        for lw in &lists {
            cx.eval();
            let d = || format!("first-fit line_widths={:?}", lw);
            if let Some(lines) = cx.guard(|| wrap_first_fit(&fr, lw)) {
                let v = partition_of(&fr, &lines);
                if let Ok(l) = &v {
                    cx.outcome(l);
                    if l.len() >= 2 {
                        cx.nontrivial();
                        if cx.want_sample() {
                            cx.sample(&|| json!({"algorithm": "first-fit", "fragments": frags_str(&fr), "line_widths": lw, "line_lengths": l}));
                        }
                    }
                }
                cx.check("C06-first-fit-partition", v.is_ok(), &d, &|| json!({"why": v.clone().err(), "line_lengths": lines.iter().map(|l| l.len()).collect::<Vec<_>>()}));
            }
            #[cfg(feature = "full")]
            for p in &pens {
                cx.eval();
                let d = || format!("optimal-fit line_widths={:?} penalties={:?}", lw, p);
                let pen = penalties(*p);
                if let Some(res) = cx.guard(|| textwrap::wrap_algorithms::wrap_optimal_fit(&fr, lw, &pen)) {
                    match res {
                        Ok(lines) => {
                            let v = partition_of(&fr, &lines);
                            if let Ok(l) = &v {
                                cx.outcome(l);
                                if l.len() >= 2 {
                                    cx.nontrivial();
                                }
                            }
                            cx.check("C06-optimal-fit-partition", v.is_ok(), &d, &|| json!({"why": v.clone().err(), "line_lengths": lines.iter().map(|l| l.len()).collect::<Vec<_>>()}));
                        }
                        Err(_) => {
                            // an overflow error carries no lines: not a partition claim.  It is only
                            // legitimate in the documented overflow region (a magnitude >= 1e150, or
                            // penalties so large that costs leave the f64 range).
                            let huge = fr.iter().any(|f| f.w.abs() >= 1e150 || f.ws.abs() >= 1e150 || f.p.abs() >= 1e150) || lw.iter().any(|w| w.abs() >= 1e150) || p.iter().any(|&x| x as f64 >= 1e18);
                            cx.check("C06-overflow-error-only-in-overflow-region", huge, &d, &|| json!({"result": "Err(OverflowError)"}));
                            cx.note("C06-overflow-error-returned");
                        }
                    }
                }
            }
        }
    })
}

fn run(r: &mut Run) -> Result<(), MachineryError> {
    let t = r.tier;
    let wild = frag_menu(&[0.0, 1.0, 0.5, -1.0, 3.0, 1e300, -1e300, 18446744073709551616.0], &[0.0, 1.0, -2.0, 0.25], &[0.0, 1.0, -1.0, 0.5]);
    let ints = frag_menu(&[0.0, 1.0, 2.0, 3.0, 5.0], &[0.0, 1.0, 2.0], &[0.0, 1.0]);
    space(r, "C06/finite-wild(128-menu)", wild, t.pick(2, 3))?;
    space(r, "C06/integers(30-menu)", ints, t.pick(4, 5))?;
    scale::frag_scale(r, "C06/long-periodic", "C06")
}
