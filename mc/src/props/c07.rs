//! C07 — first-fit is greedy-maximal (DESIGN.md §5/C07).
use super::fragspace::*;
use super::*;
use serde_json::json;
use textwrap::wrap_algorithms::wrap_first_fit;

pub fn def() -> PropDef {
    PropDef {
        id: "C07",
        builds: BOTH,
        rule: "F: every fragment sequence over a dyadic (width, whitespace, penalty) menu up to length n x 11 line-width lists (one with an infinite width), real wrap_first_fit compared with the greedy rule of the statement; T: every text over the C02 menus x first-fit configurations, the located lines mapped to runs of the public pipeline's fragments; non-trivial = a result with >= 2 lines",
        assumptions: BASE_ASSUMPTIONS,
        floor: |t| t.pick(100_000, 300_000),
        run,
    }
}

fn width_lists() -> Vec<Vec<f64>> {
    vec![vec![], vec![0.0], vec![1.0], vec![3.0], vec![3.5], vec![6.0], vec![2.0, 5.0], vec![5.0, 2.0], vec![1.0, 2.0, 3.0], vec![4.0, 0.0, 4.0], vec![2.0, f64::INFINITY]]
}

fn f_space(r: &mut Run, name: &str, menu_f: Vec<Frag>, n: usize) -> Result<(), MachineryError> {
    let lists = width_lists();
    let space = Space { name: name.into(), menu: frag_names(&menu_f), max_len: n, desc: format!("fragment sequences of length <= {} x line-width lists {:?}; oracle: line lengths == greedy rule", n, lists) };
    r.space(space, |seq, cx| {
        let fr = frags_of(seq, &menu_f);
        cx.set_input(&frags_str(&fr));
        for lw in &lists {
            cx.eval();
            let d = || format!("line_widths={:?}", lw);
            let got = match cx.guard(|| wrap_first_fit(&fr, lw).iter().map(|l| l.len()).collect::<Vec<usize>>()) {
                Some(g) => g,
                None => continue,
            };
            cx.outcome(&got);
            let exp = ref_first_fit(&fr, lw);
            if got.len() >= 2 {
                cx.nontrivial();
                if cx.want_sample() {
                    cx.sample(&|| json!({"fragments": frags_str(&fr), "line_widths": lw, "line_lengths": got}));
                }
            }
            cx.check("C07-fragments-greedy-rule", got == exp, &d, &|| json!({"line_lengths": got, "greedy_rule": exp}));
        }
    })
}

/// The other entry point to first-fit: `WrapAlgorithm::FirstFit.wrap(&[Word], &[usize])`, with
/// hand-built words that carry penalties (as a hyphen-inserting splitter produces them).
fn words_through_wrap_algorithm(r: &mut Run) -> Result<(), MachineryError> {
    use textwrap::core::Word;
    use textwrap::WrapAlgorithm;
    let t = r.tier;
    let menu_w: Vec<(&'static str, &'static str, &'static str)> = vec![("a", "", ""), ("ab", " ", ""), ("abc", "  ", ""), ("", "", ""), ("ab", "", "-"), ("\u{4f60}", " ", ""), ("a", " ", "-")];
    let lists: Vec<Vec<usize>> = vec![vec![], vec![0], vec![1], vec![3], vec![5], vec![2, 5], vec![5, 2], vec![1, 2, 3], vec![4, 0, 4]];
    let n = t.pick(4, 6);
    let space = Space { name: "C07/words-through-WrapAlgorithm".into(), menu: menu_w.iter().map(|w| format!("{:?}", w)).collect(), max_len: n, desc: format!("sequences of <= {} hand-built Words (word, whitespace, penalty) through WrapAlgorithm::FirstFit.wrap x usize line-width lists {:?}", n, lists) };
    r.space(space, |seq, cx| {
        let words: Vec<Word> = seq.iter().map(|&k| { let (w, ws, p) = menu_w[k as usize]; Word { word: w, whitespace: ws, penalty: p, width: ref_width(w) } }).collect();
        cx.set_input(&format!("{:?}", seq.iter().map(|&k| menu_w[k as usize]).collect::<Vec<_>>()));
        let fr: Vec<Frag> = words.iter().map(|w| Frag { w: w.width as f64, ws: w.whitespace.len() as f64, p: w.penalty.len() as f64 }).collect();
        for lw in &lists {
            cx.eval();
            let d = || format!("line_widths={:?}", lw);
            if let Some(got) = cx.guard(|| WrapAlgorithm::FirstFit.wrap(&words, lw).iter().map(|l| l.len()).collect::<Vec<usize>>()) {
                let lwf: Vec<f64> = lw.iter().map(|&x| x as f64).collect();
                let exp = ref_first_fit(&fr, &lwf);
                if got.len() >= 2 {
                    cx.nontrivial();
                }
                cx.check("C07-words-greedy-rule", got == exp, &d, &|| json!({"line_lengths": got, "greedy_rule": exp}));
            }
        }
    })
}

fn run(r: &mut Run) -> Result<(), MachineryError> {
    let t = r.tier;
    let big = frag_menu(&[0.0, 0.5, 1.0, 2.0, 3.5, 5.0], &[0.0, 0.5, 1.0, 2.0], &[0.0, 1.0]);
    let small = frag_menu(&[0.0, 1.0, 3.5], &[0.0, 1.0], &[0.0, 1.0]);
    f_space(r, "C07/fragments(48-menu)", big, t.pick(3, 5))?;
    f_space(r, "C07/fragments(12-menu,longer)", small, t.pick(5, 8))?;
    let g = c02::gamma();
    text_space(r, "C07/text-small", &[L, SP, HY, NL, W, CM, OP, CSI], t.pick(4, 6), &g, M_C07, WidthMode::Display, 4)?;
    text_space(r, "C07/text-tokens", &[L, LL, LLL, SP, SP2, HY, NL, W, E2], t.pick(3, 6), &g, M_C07, WidthMode::Display, 3)?;
    text_space(r, "C07/text-rich", &[L, SP, HY, TAB, ZW, NB, OP, CL, EM, E2, NL, D], t.pick(3, 5), &g, M_C07, WidthMode::Display, 3)?;
    char_context_space(r, "C07/all-characters-in-context", M_C07, vec![Alg::FirstFit])?;
    reps::char_pair_space(r, "C07/representative-pairs", M_C07, vec![Alg::FirstFit])?;
    escape_scan_space(r, "C07/escape-grammar-scan", M_C07, vec![Alg::FirstFit])?;
    word_seq_space(r, "C07/word-sequences", M_C07, vec![Alg::FirstFit])?;
    word_seq_long_space(r, "C07/word-sequences-medium", M_C07, vec![Alg::FirstFit])?;
    scale::frag_scale(r, "C07/long-periodic", "C07")?;
    scale::text_scale(r, "C07/long-paragraphs", "C07")?;
    words_through_wrap_algorithm(r)
}
