//! C10 — display_width (DESIGN.md §5/C10).
use super::*;
use serde_json::json;
use textwrap::core::display_width;

pub fn def() -> PropDef {
    PropDef {
        id: "C10",
        builds: BOTH,
        rule: "(i) every one of the 1,112,064 Unicode scalar values, alone, embedded between escape sequences, inside an OSC payload and among CSI parameters; (ii) every string over {L,W,CM,E2,EM,TAB,SP,CSI,CSI2,OSB,OSS,an OSC whose payload begins with a backslash,an OSC whose payload contains an ESC,backslash} up to length N, with every insertion of each of 4 well-formed sequences at every symbol boundary and every split for additivity; (iii) every string over raw escape pieces {L,W,ESC,[,],\\,BEL,m,;,1} up to length N for the byte-length bound; (iv) a scan of every byte 0x20..0x7F as CSI final byte / inside an OSC; non-trivial = a string containing a sequence or a character whose width differs from 1",
        assumptions: BASE_ASSUMPTIONS,
        floor: |t| t.pick(100_000, 300_000),
        run,
    }
}

const SEQS: &[&str] = &["\x1b[1m", "\x1b[38;5;9m", "\x1b]8;;u\x07", "\x1b]8;;u\x1b\\"];

fn run(r: &mut Run) -> Result<(), MachineryError> {
    let t = r.tier;
    // (i) all scalar values
    r.range("C10/all-scalars", "every Unicode scalar value c (0..=0x10FFFF minus surrogates): display_width(c) == reference width, <= len_utf8; controls and U+0300..U+036F have width 0 (full build); and in the context 'a' CSI c OSC 'b'; and c inside an OSC payload (BEL- and ST-terminated) and among CSI parameters", 0x110000, |u, cx| {
        let c = match char::from_u32(u as u32) {
            Some(c) => c,
            None => return, // surrogate range: not a scalar value
        };
        cx.eval();
        cx.seq = idx_seq(u);
        let d = || String::new();
        let s = c.to_string();
        if c == '\x1b' {
            // ESC alone does not begin a well-formed sequence: only the byte bound applies
            if let Some(w) = cx.guard(|| display_width(&s)) {
                cx.set_input(&format!("U+{:04X}", u));
                cx.check("C10-not-wider-than-bytes", w <= s.len(), &d, &|| json!({"width": w, "bytes": s.len()}));
            }
            return;
        }
        let w = match cx.guard(|| display_width(&s)) {
            Some(w) => w,
            None => return,
        };
        let rw = ref_char_width(c);
        if w != 1 {
            cx.nontrivial();
        }
        let ok = w == rw && w <= s.len() && (!cfg!(feature = "full") || !(c.is_control() || ('\u{300}'..='\u{36f}').contains(&c)) || w == 0);
        if !ok {
            cx.set_input(&format!("U+{:04X}", u));
        }
        cx.check("C10-char-width", ok, &d, &|| json!({"display_width": w, "reference": rw, "utf8_len": s.len(), "is_control": c.is_control()}));
        // after a run of printable ASCII (longer than a machine word: chunked fast paths)
        let s4 = format!("abcdefg{c}hijklmnopq");
        if let Some(w4) = cx.guard(|| display_width(&s4)) {
            if w4 != 17 + rw {
                cx.set_input(&s4);
            }
            cx.check("C10-char-width-after-ascii-run", w4 == 17 + rw, &d, &|| json!({"string": s4, "display_width": w4, "expected": 17 + rw}));
        }
        let s2 = format!("a\x1b[1m{c}\x1b]8;;u\x07b");
        if let Some(w2) = cx.guard(|| display_width(&s2)) {
            if w2 != 2 + rw {
                cx.set_input(&format!("a CSI U+{:04X} OSC b", u));
            }
            cx.check("C10-char-width-in-context", w2 == 2 + rw, &d, &|| json!({"display_width": w2, "expected": 2 + rw}));
        }
        // c inside the payload of an OSC and among the parameters of a CSI: the expectation comes
        // from the grammar DFA (c may itself terminate the sequence, or leave the string malformed)
        for s3 in [format!("\x1b]8;;{c}x\x07yz"), format!("\x1b]8;;{c}x\x1b\\yz"), format!("\x1b[{c}1myz")] {
            if let Some(v) = ref_visible(&s3) {
                if let Some(w3) = cx.guard(|| display_width(&s3)) {
                    if w3 != v.width() {
                        cx.set_input(&s3);
                    }
                    cx.check("C10-char-inside-sequence", w3 == v.width(), &d, &|| json!({"string": s3, "display_width": w3, "expected": v.width()}));
                }
            }
        }
        if u % 65536 == 0x4f60 % 65536 && cx.want_sample() {
            cx.sample(&|| json!({"scalar": format!("U+{:04X}", u), "display_width": w}));
        }
    })?;

    // (i') pairs and triples of representative characters: width is additive whatever the neighbours
    r.range("C10/representative-pairs", &format!("{}; each pair (x,y): display_width of \"xy\", \"axyb\", \"x CSI y OSC x\" == sum of the reference widths", reps::pair_desc(t)), reps::pair_space(t), move |i, cx| {
        let (x, y) = reps::pair_at(t, i);
        cx.seq = idx_seq(i);
        let (wx, wy) = (ref_char_width(x), ref_char_width(y));
        for (s, exp) in [(format!("{x}{y}"), wx + wy), (format!("a{x}{y}b"), wx + wy + 2), (format!("{x}\x1b[1m{y}\x1b]8;;u\x07{x}"), 2 * wx + wy)] {
            cx.eval();
            cx.set_input(&s);
            if let Some(w) = cx.guard(|| display_width(&s)) {
                cx.outcome(&w);
                if wx + wy != 2 {
                    cx.nontrivial();
                }
                cx.check("C10-sum-of-visible-widths", w == exp, &|| String::new(), &|| json!({"display_width": w, "reference": exp}));
                cx.check("C10-not-wider-than-bytes", w <= s.len(), &|| String::new(), &|| json!({"display_width": w, "bytes": s.len()}));
            }
        }
    })?;
    let tb = reps::triple_chars(t);
    r.range("C10/representative-triples", &format!("{}; each triple: display_width(\"xyz\") == sum of the reference widths", reps::triple_desc(t)), reps::triple_space(t), move |i, cx| {
        let (x, y, z) = reps::triple_at(&tb, i);
        cx.seq = idx_seq(i);
        let s = format!("{x}{y}{z}");
        let exp = ref_char_width(x) + ref_char_width(y) + ref_char_width(z);
        cx.eval();
        cx.set_input(&s);
        if let Some(w) = cx.guard(|| display_width(&s)) {
            cx.outcome(&w);
            cx.check("C10-sum-of-visible-widths", w == exp, &|| String::new(), &|| json!({"display_width": w, "reference": exp}));
        }
    })?;

    // (ii) well-formed strings
    let alpha = [L, W, CM, E2, EM, TAB, SP, CSI, CSI2, OSB, OSS, OSBS, OSCE, BSL, CSIL, CSIC];
    let n = t.pick(4, 6);
    let space = Space { name: "C10/wellformed-strings".into(), menu: menu(&alpha), max_len: n, desc: format!("strings of length <= {}: display_width == sum of reference widths of the visible characters; additive over every split of ESC-free strings; unchanged by inserting each of {:?} at every symbol boundary; <= byte length", n, SEQS) };
    r.space(space, |seq, cx| {
        let syms: Vec<String> = seq.iter().map(|&k| build(&[k], &alpha)).collect();
        let s = build(seq, &alpha);
        cx.set_input(&s);
        cx.eval();
        let d = || String::new();
        let w = match cx.guard(|| display_width(&s)) {
            Some(w) => w,
            None => return,
        };
        cx.outcome(&w);
        let rw = ref_width(&s);
        if s.contains('\x1b') || rw != s.chars().count() {
            cx.nontrivial();
            if cx.want_sample() {
                cx.sample(&|| json!({"string": s, "display_width": w}));
            }
        }
        cx.check("C10-sum-of-visible-widths", w == rw, &d, &|| json!({"display_width": w, "reference": rw}));
        cx.check("C10-not-wider-than-bytes", w <= s.len(), &d, &|| json!({"display_width": w, "bytes": s.len()}));
        if !s.contains('\x1b') {
            for (i, _) in s.char_indices().chain([(s.len(), ' ')]) {
                if let Some((a, b)) = cx.guard(|| (display_width(&s[..i]), display_width(&s[i..]))) {
                    cx.check("C10-additive", a + b == w, &|| format!("split_at_byte={}", i), &|| json!({"left": a, "right": b, "whole": w}));
                }
            }
        }
        for pos in 0..=syms.len() {
            for q in SEQS {
                let mut tt = String::new();
                for (k, sy) in syms.iter().enumerate() {
                    if k == pos {
                        tt.push_str(q);
                    }
                    tt.push_str(sy);
                }
                if pos == syms.len() {
                    tt.push_str(q);
                }
                if let Some(w2) = cx.guard(|| display_width(&tt)) {
                    cx.check("C10-insertion-invariant", w2 == w, &|| format!("insert {:?} before symbol {}", q, pos), &|| json!({"with_insertion": tt, "display_width": w2, "without": w}));
                }
            }
        }
    })?;

    // (iii) raw pieces: byte-length bound on every string, well-formed or not
    let raw = [L, W, ESC, LBR, RBR, BSL, BEL, LM, SEMI, D];
    let n = t.pick(6, 8);
    let space = Space { name: "C10/raw-escape-pieces".into(), menu: menu(&raw), max_len: n, desc: format!("strings of length <= {} over raw escape pieces (mostly malformed/truncated sequences): display_width <= byte length; for the well-formed ones also == reference", n) };
    r.space(space, |seq, cx| {
        let s = build(seq, &raw);
        cx.set_input(&s);
        cx.eval();
        let d = || String::new();
        if let Some(w) = cx.guard(|| display_width(&s)) {
            cx.outcome(&w);
            cx.check("C10-not-wider-than-bytes", w <= s.len(), &d, &|| json!({"display_width": w, "bytes": s.len()}));
            if let Some(v) = ref_visible(&s) {
                if !v.seqs.is_empty() {
                    cx.nontrivial();
                }
                cx.check("C10-sum-of-visible-widths", w == v.width(), &d, &|| json!({"display_width": w, "reference": v.width()}));
            } else {
                cx.note("C10-malformed-string(byte bound only)");
            }
        }
    })?;

    // (iv) grammar boundary scan
    r.range("C10/esc-grammar-scan", "for every byte b in 0x20..=0x7F: 'ESC [ 1 b X' (b in '@'..='~' ends the CSI, otherwise X does) and 'ESC ] 8 b X BEL X' (only BEL or ESC \\ ends an OSC); and every b as the byte after ESC \\-less OSC with ST terminator", 96 * 3, |i, cx| {
        let b = (0x20 + (i % 96)) as u8 as char;
        let kind = i / 96;
        cx.eval();
        cx.seq = idx_seq(i);
        let (s, exp) = match kind {
            0 => (format!("\x1b[1{b}X"), if ('\x40'..='\x7e').contains(&b) { 1 } else { 0 }),
            1 => (format!("\x1b]8{b}X\x07X"), 1),
            _ => (format!("\x1b]8{b}X\x1b\\X"), 1),
        };
        cx.set_input(&s);
        cx.nontrivial();
        if let Some(w) = cx.guard(|| display_width(&s)) {
            cx.check("C10-escape-grammar", w == exp, &|| String::new(), &|| json!({"display_width": w, "expected": exp}));
        }
        if cx.want_sample() {
            cx.sample(&|| json!({"string": s, "expected_width": exp}));
        }
    })?;
    Ok(())
}
