//! C19 — indent prefixes every line and preserves line structure (DESIGN.md §5/C19).
use super::*;
use serde_json::json;
use textwrap::indent;

pub fn def() -> PropDef {
    PropDef {
        id: "C19",
        builds: BOTH,
        rule: "every text over {SP,TAB,L,NL,CRLF,NBSP,L,SHY (non-whitespace sharing NBSP's UTF-8 lead byte)} up to length N x prefixes {\"\",\"  \",\"# \",\">\",TAB,\" x \"}; non-trivial = a text with >= 2 lines of which one is whitespace-only or empty, under a non-empty prefix",
        assumptions: BASE_ASSUMPTIONS,
        floor: |t| t.pick(10_000, 30_000),
        run,
    }
}

fn run(r: &mut Run) -> Result<(), MachineryError> {
    let t = r.tier;
    let alpha = [SP, SP2, TAB, L, NL, CRLF, NB, SHY];
    let n = t.pick(7, 9);
    let space = Space { name: "C19/texts".into(), menu: menu(&alpha), max_len: n, desc: format!("texts of length <= {} x 6 prefixes", n) };
    r.space(space, |seq, cx| {
        let s = build(seq, &alpha);
        cx.set_input(&s);
        check_text(&s, cx);
    })?;
    r.range("C19/all-characters-in-context", &format!("{}; each c in the texts \"a\\nc\\nb\", \"c\", \"a\\n c\", \"c \\nb\\n\" x 6 prefixes", scalar_desc(t)), scalar_space(t), move |i, cx| {
        let c = match scalar_at(t, i) {
            Some(c) => c,
            None => return,
        };
        cx.seq = idx_seq(i);
        for s in [format!("a\n{c}\nb"), format!("{c}"), format!("a\n {c}"), format!("{c} \nb\n")] {
            cx.set_input(&s);
            check_text(&s, cx);
        }
    })?;
    r.range("C19/representative-pairs", &format!("{}; each pair (x,y) in the texts \"a\\nxy\\nb\", \"xy\", \"x\\ny\", \"xy\\n yx\\n\" x 6 prefixes", reps::pair_desc(t)), reps::pair_space(t), move |i, cx| {
        let (x, y) = reps::pair_at(t, i);
        cx.seq = idx_seq(i);
        for s in [format!("a\n{x}{y}\nb"), format!("{x}{y}"), format!("{x}\n{y}"), format!("{x}{y}\n {y}{x}\n")] {
            cx.set_input(&s);
            check_text(&s, cx);
        }
    })
}

fn check_text(s: &str, cx: &mut Cx) {
    {

        for p in ["", "  ", "# ", ">", "\t", " x "] {
            cx.eval();
            let d = || format!("prefix={:?}", p);
            let out = match cx.guard(|| indent(s, p)) {
                Some(x) => x,
                None => continue,
            };
            cx.outcome(&out);
            let exp = ref_indent(s, p);
            if !p.is_empty() && s.matches('\n').count() >= 1 && s.split('\n').any(|l| l.trim().is_empty()) {
                cx.nontrivial();
                if cx.want_sample() {
                    cx.sample(&|| json!({"input": s, "prefix": p, "indent": out}));
                }
            }
            cx.check("C19-matches-reference", out == exp, &d, &|| json!({"indent": out, "expected": exp}));
            cx.check("C19-line-structure-preserved", out.matches('\n').count() == s.matches('\n').count() && out.ends_with('\n') == s.ends_with('\n'), &d, &|| json!({"indent": out}));
            if p.is_empty() {
                cx.check("C19-empty-prefix-is-identity", out == s, &d, &|| json!({"indent": out}));
            }
        }
    }
}
