//! C03 — optimal-fit returns a minimum-cost arrangement (DESIGN.md §5/C03).
use super::fragspace::*;
use super::*;
use serde_json::json;
use textwrap::wrap_algorithms::{wrap_first_fit, wrap_optimal_fit};

pub fn def() -> PropDef {
    PropDef {
        id: "C03",
        builds: FULL,
        rule: "F: every fragment sequence over integer menus (30-fragment menu to n=4/5, 3-fragment menu to n=10/14, periodic sequences to n=60, a 2^20-scaled menu) satisfying the statement's precondition pen_i <= w_{i+1}, x one- and two-element line-width lists (all >= 1) x penalty records; cost(real wrap_optimal_fit result) under the documented cost model must equal the minimum (O(n^2) recursion, itself cross-checked against explicit enumeration of all 2^(n-1) arrangements for n <= 9) and not exceed the cost of the real first-fit arrangement; T: every text over {L,LL,LLL,SP,HY,NL,W} x optimal-fit configurations without the zero-width sentinel; non-trivial = an optimal arrangement with >= 2 lines",
        assumptions: BASE_ASSUMPTIONS,
        floor: |t| t.pick(100_000, 300_000),
        run,
    }
}

fn width_lists(scale: f64) -> Vec<Vec<f64>> {
    [vec![1.0], vec![3.0], vec![4.0], vec![6.0], vec![10.0], vec![2.0, 5.0], vec![5.0, 2.0], vec![4.0, 3.0], vec![1.0, 6.0]].iter().map(|l| l.iter().map(|x| x * scale).collect()).collect()
}

fn pens_all() -> Vec<[usize; 5]> {
    let mut v = vec![DEFAULT_PEN, [0, 1, 4, 25, 25], [3, 7, 2, 5, 0], [0, 0, 1, 0, 0], [1000, 2500, 4, 25, 0]];
    for &n in &[0usize, 2, 9] {
        for &o in &[0usize, 1, 5] {
            for &h in &[0usize, 3] {
                v.push([n, o, 3, 2, h]);
            }
        }
    }
    v
}

fn check_instance(fr: &[Frag], lw: &[f64], p: &[usize; 5], cx: &mut Cx) {
    cx.eval();
    let d = || format!("line_widths={:?} penalties(nline,overflow,fraction,short,hyphen)={:?}", lw, p);
    let pen_real = penalties(*p);
    let res = match cx.guard(|| wrap_optimal_fit(fr, lw, &pen_real).map(|ls| ls.iter().map(|l| l.len()).collect::<Vec<usize>>())) {
        Some(r) => r,
        None => return,
    };
    let lens = match res {
        Ok(l) => l,
        Err(_) => {
            cx.fail("C03-minimum-cost", &d, &|| json!({"result": "Err(OverflowError) on small integer widths"}));
            return;
        }
    };
    cx.outcome(&lens);
    if lens.iter().sum::<usize>() != fr.len() || lens.iter().any(|&l| l == 0) {
        // not a partition: C06's business; the cost of a non-partition is undefined
        cx.note("C03-result-not-a-partition(see C06)");
        return;
    }
    let pen = pen_of(*p);
    let got = ref_arrangement_cost(fr, &lens, lw, &pen);
    let best = ref_optimum_dp(fr, lw, &pen);
    if fr.len() <= 9 {
        let brute = ref_optimum_brute(fr, lw, &pen);
        assert!(brute == best, "reference self-check failed: DP {} vs brute force {} on {:?} {:?} {:?}", best, brute, fr, lw, p);
    }
    cx.check("C03-minimum-cost", got == best, &d, &|| json!({"line_lengths": lens, "cost": got, "minimum": best}));
    if let Some(ff) = cx.guard(|| wrap_first_fit(fr, lw).iter().map(|l| l.len()).collect::<Vec<usize>>()) {
        let cff = ref_arrangement_cost(fr, &ff, lw, &pen);
        cx.check("C03-not-worse-than-first-fit", got <= cff, &d, &|| json!({"optimal_fit_lengths": lens, "cost": got, "first_fit_lengths": ff, "first_fit_cost": cff}));
        if ff != lens {
            cx.note("C03-arrangement-differs-from-first-fit");
        }
    }
    if lens.len() >= 2 {
        cx.nontrivial();
        if cx.want_sample() {
            cx.sample(&|| json!({"fragments": frags_str(fr), "config": d(), "line_lengths": lens, "cost": got}));
        }
    }
    if fr.iter().zip(fr.iter().skip(1)).any(|(a, _)| a.p > 0.0) {
        cx.note("C03-hyphen-penalty-in-play");
    }
}

fn precondition(fr: &[Frag]) -> bool {
    (0..fr.len().saturating_sub(1)).all(|k| fr[k].p <= fr[k + 1].w)
}

fn f_space(r: &mut Run, name: &str, menu_f: Vec<Frag>, n: usize, lists: Vec<Vec<f64>>, pens: Vec<[usize; 5]>) -> Result<(), MachineryError> {
    let space = Space { name: name.into(), menu: frag_names(&menu_f), max_len: n, desc: format!("fragment sequences of length 1..={} with pen_i <= w_(i+1) x line-width lists {:?} x {} penalty records {:?}", n, lists, pens.len(), pens) };
    r.space(space, |seq, cx| {
        if seq.is_empty() {
            return;
        }
        let fr = frags_of(seq, &menu_f);
        cx.set_input(&frags_str(&fr));
        if !precondition(&fr) {
            cx.note("C03-precondition-not-met(skipped)");
            return;
        }
        for lw in &lists {
            for p in &pens {
                check_instance(&fr, lw, p, cx);
            }
        }
    })
}

fn periodic(r: &mut Run, lengths: Vec<usize>) -> Result<(), MachineryError> {
    let menu_f = frag_menu(&[1.0, 3.0], &[0.0, 1.0], &[0.0, 1.0]);
    let lists = width_lists(1.0);
    let pens = vec![DEFAULT_PEN, [3, 7, 2, 5, 0]];
    let space = Space { name: "C03/periodic-long".into(), menu: frag_names(&menu_f), max_len: 3, desc: format!("periodic fragment sequences: every period of length 1..=3 over the menu, repeated to the lengths {:?}; line-width lists {:?}; penalties {:?}", lengths, lists, pens) };
    r.space(space, |seq, cx| {
        if seq.is_empty() {
            return;
        }
        let period = frags_of(seq, &menu_f);
        for &n in &lengths {
            let fr: Vec<Frag> = (0..n).map(|i| period[i % period.len()]).collect();
            if !precondition(&fr) {
                continue;
            }
            cx.set_input(&format!("period [{}] repeated to n={}", frags_str(&period), n));
            for lw in &lists {
                for p in &pens {
                    check_instance(&fr, lw, p, cx);
                }
            }
        }
    })
}

fn run(r: &mut Run) -> Result<(), MachineryError> {
    let t = r.tier;
    let phi = frag_menu(&[0.0, 1.0, 2.0, 3.0, 5.0], &[0.0, 1.0, 2.0], &[0.0, 1.0]);
    f_space(r, "C03/fragments(30-menu,all-penalties)", phi.clone(), t.pick(3, 4), width_lists(1.0), pens_all())?;
    f_space(r, "C03/fragments(30-menu,deeper)", phi, t.pick(4, 5), width_lists(1.0), vec![DEFAULT_PEN, [3, 7, 2, 5, 0]])?;
    let three = vec![Frag { w: 1.0, ws: 1.0, p: 0.0 }, Frag { w: 3.0, ws: 1.0, p: 0.0 }, Frag { w: 2.0, ws: 0.0, p: 1.0 }];
    f_space(r, "C03/fragments(3-menu,long)", three, t.pick(10, 15), width_lists(1.0), vec![DEFAULT_PEN, [0, 1, 4, 25, 25]])?;
    periodic(r, t.pick((1..=20).chain([30, 45, 60]).collect(), (1..=60).collect()))?;
    let s = 1048576.0;
    let scaled = frag_menu(&[0.0, 1.0 * s, 3.0 * s, 5.0 * s], &[0.0, 1.0 * s], &[0.0, 1.0 * s]);
    f_space(r, "C03/fragments(scaled-by-2^20)", scaled, t.pick(3, 4), width_lists(s), vec![DEFAULT_PEN, [3, 7, 2, 5, 0]])?;

    // text level
    let mut algs = vec![Alg::Opt(DEFAULT_PEN), Alg::Opt([0, 1, 4, 25, 25]), Alg::Opt([3, 7, 2, 5, 0])];
    if t == Tier::Quick {
        algs.truncate(2);
    }
    let g = Gamma { seps: seps(), algs, spls: vec![Spl::None, Spl::Hyphen], bws: vec![true, false], indents: vec![("", ""), (">", ""), ("", ">>"), ("\u{4f60}", ">"), ("\x1b[1m>\x1b[0m", ""), ("", "\u{2502}")], crlf: vec![false] };
    text_space(r, "C03/text", &[L, LL, LLL, SP, HY, NL, W], t.pick(4, 6), &g, M_C03, WidthMode::Display, 0)?;
    word_seq_space(r, "C03/word-sequences", M_C03, vec![Alg::Opt(DEFAULT_PEN), Alg::Opt([3, 7, 2, 5, 0])])?;
    word_seq_long_space(r, "C03/word-sequences-medium", M_C03, vec![Alg::Opt(DEFAULT_PEN), Alg::Opt([3, 7, 2, 5, 0])])?;
    scale::frag_scale(r, "C03/long-periodic", "C03")?;
    scale::text_scale_c03(r, "C03/long-paragraphs")
}
