//! C16 — refill equals filling the original paragraph at the new width (DESIGN.md §5/C16).
use super::c15::*;
use super::*;
use serde_json::json;
use textwrap::{fill, refill, LineEnding, Options};

pub fn def() -> PropDef {
    PropDef {
        id: "C16",
        builds: BOTH,
        rule: "every paragraph of 1..=k words from the C15 vocabulary x o1 (widths 0..=12 x 9 indent pairs x algorithms x LF/CRLF x trailing ending yes/no; space-only breaking) restricted to filled forms with >= 2 lines x o2 (widths {0,3,5,8,20, widest line of the filled input and its neighbours} x LF/CRLF x algorithms, space-only breaking, plus default Options at each width, with and without indents of its own); refill(fill(t,o1)[+e1], o2) == fill(t, o2 with o1's indents)[+e2]; non-trivial = every evaluated case (a filled form with >= 2 lines)",
        assumptions: BASE_ASSUMPTIONS,
        floor: |t| t.pick(100_000, 300_000),
        run,
    }
}

fn run(r: &mut Run) -> Result<(), MachineryError> {
    let t = r.tier;
    let k = t.pick(3, 4);
    let variants: [(&str, &'static [&'static str], &'static [LineEnding], &'static [bool]); 2] = [
        ("C16/refill", &["", "> ", "> + "], &[LineEnding::LF, LineEnding::CRLF], &[false, true]),
        // indents that do not end in a space (the prefix then touches the first word of the line)
        ("C16/refill(indents-without-trailing-space)", &["", "#", "//", " >"], &[LineEnding::LF], &[false]),
    ];
    for (sname, indents, le1s, trailings) in variants {
        let space = Space { name: sname.into(), menu: VOCAB.iter().map(|s| s.to_string()).collect(), max_len: k, desc: format!("paragraphs of 1..={} words x o1 x o2 as in the rule; indents {:?}", k, indents) };
        r.space(space, |seq, cx| {
            if seq.is_empty() {
                return;
            }
            let text: String = seq.iter().map(|&i| VOCAB[i as usize]).collect::<Vec<_>>().join(" ");
            cx.set_input(&text);
            for w1 in 0..=12usize {
                for (a1n, a1) in algs() {
                    for &le1 in le1s {
                        for ii in indents {
                            for si in indents {
                                let o1 = space_only_options(w1, a1, le1, ii, si);
                                let filled0 = match cx.guard(|| fill(&text, &o1)) {
                                    Some(f) => f,
                                    None => continue,
                                };
                                if filled0.split(le1.as_str()).count() < 2 {
                                    continue;
                                }
                                for &trailing in trailings {
                                    let mut filled = filled0.clone();
                                    if trailing {
                                        filled.push_str(le1.as_str());
                                    }
                                    // o2 widths: fixed ones plus the boundary "widest line of the filled input" +-1
                                    let widest = filled0.split(le1.as_str()).map(ref_width).max().unwrap_or(0);
                                    let mut w2s = vec![0usize, 3, 5, 8, 20, widest, widest + 1];
                                    if widest > 0 {
                                        w2s.push(widest - 1);
                                    }
                                    w2s.sort();
                                    w2s.dedup();
                                    for w2 in w2s {
                                        for le2 in [LineEnding::LF, LineEnding::CRLF] {
                                            let mut o2s: Vec<(String, Options<'static>)> = algs().into_iter().map(|(n, a)| (format!("space-only {}", n), space_only_options(w2, a, le2, "", ""))).collect();
                                            o2s.push(("Options::new defaults".to_string(), Options::new(w2).line_ending(le2)));
                                            // o2 carrying indents of its own: the statement replaces them by o1's
                                            o2s.push(("Options::new defaults with indents (\"## \", \"    \") of its own".to_string(), Options::new(w2).line_ending(le2).initial_indent("## ").subsequent_indent("    ")));
                                            for (o2n, o2) in o2s {
                                                cx.eval();
                                                cx.nontrivial();
                                                let d = || format!("o1: width={} algorithm={} ending={:?} initial_indent={:?} subsequent_indent={:?} trailing_ending={}; o2: width={} ending={:?} {}", w1, a1n, le1, ii, si, trailing, w2, le2, o2n);
                                                let res = cx.guard(|| {
                                                    let got = refill(&filled, o2.clone());
                                                    let mut exp = fill(&text, o2.clone().initial_indent(ii).subsequent_indent(si));
                                                    if trailing {
                                                        exp.push_str(le2.as_str());
                                                    }
                                                    (got, exp)
                                                });
                                                if let Some((got, exp)) = res {
                                                    cx.outcome(&got);
                                                    cx.check("C16-refill-eq-fill-of-original", got == exp, &d, &|| json!({"filled_input": filled, "refill": got, "expected": exp}));
                                                    if cx.want_sample() {
                                                        cx.sample(&|| json!({"paragraph": text, "config": d(), "filled_input": filled, "refill": got}));
                                                    }
                                                }
                                            }
                                        }
                                    }
                                }
                            }
                        }
                    }
                }
            }
        })?;
    }
    Ok(())
}
