//! C04 — public functions are total (DESIGN.md §5/C04).
use super::fragspace::*;
use super::*;
use serde_json::json;
use textwrap::core::{break_words, display_width, Word};
use textwrap::word_splitters::split_words;
use textwrap::wrap_algorithms::wrap_first_fit;
use textwrap::{dedent, fill, fill_inplace, indent, refill, unfill, wrap, wrap_columns, LineEnding, Options, WordSeparator, WordSplitter};

pub fn def() -> PropDef {
    PropDef {
        id: "C04",
        builds: BOTH,
        rule: "T: every text over a 19-symbol adversarial menu (deeper over an 8-symbol core for wrap/fill/wrap_columns, and deeper still for the cheap functions, also over a 10-symbol line-structure menu with CR, LF, two multi-byte characters sharing a lead byte, TAB) x every public text function x widths {0,1,2,3,len,MAX-1,MAX} x all built-in option combinations x 3 indent pairs (wrap_columns: 1..3 columns, total widths 0..9, 4 gap triples); F: every fragment sequence over a 220-fragment menu with NaN/inf/negative/huge values x 9 line-width lists x 3 penalty records (no panic), a usize-valued menu x 600 penalty records (optimal-fit must return Ok), and 600 penalty records driven through wrap; each call runs under catch_unwind and a hang watchdog; non-trivial = a text containing ESC, a multi-byte character, CR or LF / a fragment sequence of length >= 2",
        assumptions: BASE_ASSUMPTIONS,
        floor: |t| t.pick(10_000, 30_000),
        run,
    }
}

fn option_records(widths: &[usize]) -> Vec<Cfg> {
    let g = Gamma { seps: seps(), algs: algs_default(), spls: vec![Spl::None, Spl::Hyphen], bws: vec![true, false], indents: vec![("", ""), ("\u{4f60}", ">>>>"), (">>>>", "\u{4f60}")], crlf: vec![false, true] };
    let mut v = vec![];
    for b in g.bases() {
        for &w in widths {
            v.push(Cfg { width: w, ..b });
        }
    }
    v
}

fn every_boundary(word: &str) -> Vec<usize> {
    word.char_indices().map(|(i, _)| i).collect()
}

macro_rules! total {
    ($cx:expr, $name:expr, $cfg:expr, $body:expr) => {{
        $cx.eval();
        let r = $cx.guard_quiet(|| {
            let _ = $body;
        });
        let msg = if r.is_none() { $cx.last_panic() } else { String::new() };
        $cx.check($name, r.is_some(), &|| $cfg, &|| json!({"outcome": "panic", "panic": msg}));
    }};
}

/// wrap, fill and wrap_columns under every built-in option combination (the expensive calls)
fn wrap_totality(r: &mut Run, name: &str, alpha: &[Sym], n: usize) -> Result<(), MachineryError> {
    let space = Space {
        name: name.into(),
        menu: menu(alpha),
        max_len: n,
        desc: format!("texts of length <= {}: wrap, fill (widths 0,1,2,3,len,MAX-1,MAX x separators x algorithms x none/hyphen x break_words x 3 indent pairs x LF/CRLF), wrap_columns (columns 1..3, widths 0..9, 4 gap triples, break_words on/off)", n),
    };
    r.space(space, |seq, cx| {
        let text = build(seq, alpha);
        cx.set_input(&text);
        if text.contains('\x1b') || !text.is_ascii() || text.contains('\r') || text.contains('\n') {
            cx.nontrivial();
        }
        let ws = [0usize, 1, 2, 3, text.len(), usize::MAX - 1, usize::MAX];
        for cfg in option_records(&ws) {
            let o = cfg.opts();
            total!(cx, "C04-wrap-returns", cfg.d(), wrap(&text, &o));
            total!(cx, "C04-fill-returns", cfg.d(), fill(&text, &o));
        }
        for cols in 1..=3usize {
            for total_w in 0..=9usize {
                for (l, m, rr) in [("", "", ""), ("|", "|", "|"), ("\u{4f60}", " ", ""), ("", "--", ">")] {
                    for bw in [true, false] {
                        total!(cx, "C04-wrap_columns-returns", format!("columns={} total_width={} gaps=({:?},{:?},{:?}) break_words={}", cols, total_w, l, m, rr, bw), wrap_columns(&text, cols, Options::new(total_w).break_words(bw), l, m, rr));
                    }
                }
            }
        }
        if cx.want_sample() && seq.len() >= 2 {
            cx.sample(&|| json!({"text": text, "calls": "wrap, fill, wrap_columns; see space description"}));
        }
    })
}

/// the cheap public functions, explored deeper
fn cheap_totality(r: &mut Run, name: &str, alpha: &[Sym], n: usize) -> Result<(), MachineryError> {
    let space = Space {
        name: name.into(),
        menu: menu(alpha),
        max_len: n,
        desc: format!("texts of length <= {}: fill_inplace (widths 0,1,2,3,len,MAX-1,MAX), unfill, refill (widths 0,1,3,MAX x LF/CRLF), indent (4 prefixes), dedent, display_width, find_words (both separators), split_words (none, hyphen, custom), break_words and Word::break_apart (limits 0..3, MAX)", n),
    };
    r.space(space, |seq, cx| {
        let text = build(seq, alpha);
        cx.set_input(&text);
        if text.contains('\x1b') || !text.is_ascii() || text.contains('\r') || text.contains('\n') {
            cx.nontrivial();
        }
        let ws = [0usize, 1, 2, 3, text.len(), usize::MAX - 1, usize::MAX];
        for &w in &ws {
            total!(cx, "C04-fill_inplace-returns", format!("width={}", w), {
                let mut s = text.clone();
                fill_inplace(&mut s, w);
                s
            });
        }
        total!(cx, "C04-unfill-returns", String::new(), unfill(&text).0);
        for &w in &[0usize, 1, 3, usize::MAX] {
            for le in [LineEnding::LF, LineEnding::CRLF] {
                total!(cx, "C04-refill-returns", format!("width={} ending={:?}", w, le), refill(&text, Options::new(w).line_ending(le)));
            }
        }
        for p in ["", "  ", "\u{4f60}\t", "\x1b["] {
            total!(cx, "C04-indent-returns", format!("prefix={:?}", p), indent(&text, p));
        }
        total!(cx, "C04-dedent-returns", String::new(), dedent(&text));
        total!(cx, "C04-display_width-returns", String::new(), display_width(&text));
        let mut seps_v = vec![("ascii", WordSeparator::AsciiSpace)];
        #[cfg(feature = "full")]
        seps_v.push(("unicode", WordSeparator::UnicodeBreakProperties));
        for (sn, sep) in seps_v {
            total!(cx, "C04-find_words-returns", format!("separator={}", sn), sep.find_words(&text).count());
            for (pn, spl) in [("none", WordSplitter::NoHyphenation), ("hyphen", WordSplitter::HyphenSplitter), ("custom-every-boundary", WordSplitter::Custom(every_boundary))] {
                total!(cx, "C04-split_words-returns", format!("separator={} splitter={}", sn, pn), split_words(sep.find_words(&text), &spl).count());
                for limit in [0usize, 1, 2, 3, usize::MAX] {
                    total!(cx, "C04-break_words-returns", format!("separator={} splitter={} limit={}", sn, pn, limit), break_words(split_words(sep.find_words(&text), &spl), limit).len());
                }
            }
        }
        for limit in [0usize, 1, 2, 3, usize::MAX] {
            total!(cx, "C04-break_apart-returns", format!("limit={}", limit), Word::from(&text).break_apart(limit).count());
        }
        if cx.want_sample() && seq.len() >= 2 {
            cx.sample(&|| json!({"text": text, "calls": "fill_inplace, unfill, refill, indent, dedent, display_width, find_words, split_words, break_words, break_apart"}));
        }
    })
}

fn nonfinite(r: &mut Run, n: usize) -> Result<(), MachineryError> {
    let nan = f64::NAN;
    let inf = f64::INFINITY;
    let menu_f = frag_menu(&[0.0, 1.0, 0.5, -1.0, 3.0, nan, inf, -inf, 1e300, -1e300, 18446744073709551616.0], &[0.0, 1.0, nan, inf, -2.0], &[0.0, 1.0, nan, -1.0]);
    let lists: Vec<Vec<f64>> = vec![vec![], vec![0.0], vec![3.0], vec![nan], vec![inf], vec![-1.0], vec![2.0, 5.0], vec![1e300, 1.0], vec![1.0, 2.0, 3.0]];
    #[cfg(feature = "full")]
    let pens: Vec<[usize; 5]> = vec![DEFAULT_PEN, [usize::MAX, usize::MAX, 0, usize::MAX, usize::MAX], [0, 0, usize::MAX, 0, 0]];
    let space = Space { name: "C04/fragments-nonfinite".into(), menu: frag_names(&menu_f), max_len: n, desc: format!("fragment sequences of length <= {} over NaN/inf/negative/huge values x line-width lists {:?} x 3 penalty records: neither algorithm may panic", n, lists) };
    r.space(space, |seq, cx| {
        let fr = frags_of(seq, &menu_f);
        cx.set_input(&frags_str(&fr));
        if fr.len() >= 2 {
            cx.nontrivial();
        }
        for lw in &lists {
            total!(cx, "C04-wrap_first_fit-returns", format!("line_widths={:?}", lw), wrap_first_fit(&fr, lw).len());
            #[cfg(feature = "full")]
            for p in &pens {
                let pen = penalties(*p);
                total!(cx, "C04-wrap_optimal_fit-returns", format!("line_widths={:?} penalties={:?}", lw, p), textwrap::wrap_algorithms::wrap_optimal_fit(&fr, lw, &pen).map(|l| l.len()));
            }
        }
    })
}

#[cfg(feature = "full")]
fn pens_600() -> Vec<[usize; 5]> {
    let vals = [0usize, 1, 7, 1 << 32, usize::MAX];
    let mut pens = vec![];
    for &a in &vals {
        for &b in &vals {
            for &c in &[0usize, 1, 4, usize::MAX] {
                for &d in &[0usize, 25, usize::MAX] {
                    for &e in &[0usize, usize::MAX] {
                        pens.push([a, b, c, d, e]);
                    }
                }
            }
        }
    }
    pens
}

#[cfg(feature = "full")]
fn usize_valued(r: &mut Run, n: usize) -> Result<(), MachineryError> {
    let m = usize::MAX as f64;
    let big = (1u64 << 32) as f64;
    let menu_f = frag_menu(&[0.0, 1.0, 7.0, big, m], &[0.0, 1.0, m], &[0.0, 1.0]);
    let lists: Vec<Vec<f64>> = vec![vec![0.0], vec![1.0], vec![7.0], vec![big], vec![m], vec![1.0, m], vec![m, 0.0]];
    let pens = pens_600();
    let space = Space { name: "C04/fragments-usize-valued".into(), menu: frag_names(&menu_f), max_len: n, desc: format!("fragment sequences of length <= {} with usize-valued widths x usize-valued line-width lists {:?} x {} usize penalty records: wrap_optimal_fit must return Ok", n, lists, pens.len()) };
    r.space(space, |seq, cx| {
        let fr = frags_of(seq, &menu_f);
        cx.set_input(&frags_str(&fr));
        if fr.len() >= 2 {
            cx.nontrivial();
        }
        for lw in &lists {
            for p in &pens {
                cx.eval();
                let pen = penalties(*p);
                let d = || format!("line_widths={:?} penalties={:?}", lw, p);
                let res = cx.guard_quiet(|| textwrap::wrap_algorithms::wrap_optimal_fit(&fr, lw, &pen).map(|l| l.len()));
                cx.check("C04-wrap_optimal_fit-returns", res.is_some(), &d, &|| json!({"outcome": "panic"}));
                if let Some(res) = res {
                    cx.check("C04-no-overflow-error-for-usize-values", res.is_ok(), &d, &|| json!({"outcome": "Err(OverflowError)"}));
                }
            }
        }
    })
}

#[cfg(feature = "full")]
fn penalties_through_wrap(r: &mut Run, n: usize) -> Result<(), MachineryError> {
    let alpha = [L, LLL, SP, HY, W, NL, CM, ESC, LBR];
    let pens = pens_600();
    let space = Space { name: "C04/usize-penalties-through-wrap".into(), menu: menu(&alpha), max_len: n, desc: format!("texts of length <= {} x widths {{0,1,2,5,MAX-1,MAX}} x {} usize penalty records x break_words x 2 indent pairs through wrap (whose unwrap() would turn an overflow error into a panic)", n, pens.len()) };
    r.space(space, |seq, cx| {
        let text = build(seq, &alpha);
        cx.set_input(&text);
        if seq.len() >= 2 {
            cx.nontrivial();
        }
        for &w in &[0usize, 1, 2, 5, usize::MAX - 1, usize::MAX] {
            for p in &pens {
                for bw in [true, false] {
                    for (ii, si) in [("", ""), (">>", "\u{4f60}")] {
                        let cfg = Cfg { entry: Entry::Ref, width: w, sep: Sep::Uni, alg: Alg::Opt(*p), spl: Spl::Hyphen, bw, ii, si, crlf: false };
                        let o = cfg.opts();
                        total!(cx, "C04-wrap-returns", cfg.d(), wrap(&text, &o));
                    }
                }
            }
        }
    })
}

fn run(r: &mut Run) -> Result<(), MachineryError> {
    let t = r.tier;
    let adv = [L, SP, HY, NL, CR, W, CM, EM, ESC, LBR, RBR, BSL, BEL, LM, NB, ZW, SHY, HASH, TAB];
    let core = [L, SP, NL, CR, W, ESC, LBR, HASH];
    let lines = [L, SP, NL, CR, W, E2, HASH, TAB, NB, SHY];
    wrap_totality(r, "C04/wrap-adversarial-19", &adv, t.pick(3, 4))?;
    wrap_totality(r, "C04/wrap-core-8", &core, t.pick(4, 6))?;
    cheap_totality(r, "C04/cheap-adversarial-19", &adv, t.pick(4, 5))?;
    cheap_totality(r, "C04/cheap-line-structure-10", &lines, t.pick(5, 7))?;
    // margins made of multi-byte whitespace and characters sharing its UTF-8 lead byte (dedent / indent / unfill)
    cheap_totality(r, "C04/cheap-margins-7", &[SP, TAB, NB, L, NL, SHY, CR], t.pick(7, 9))?;
    nonfinite(r, t.pick(2, 3))?;
    #[cfg(feature = "full")]
    {
        usize_valued(r, t.pick(2, 3))?;
        penalties_through_wrap(r, t.pick(2, 4))?;
    }
    Ok(())
}
