//! One module per property: spaces (menu, N), configurations, oracle, non-triviality rule.

use crate::alphabet::*;
use crate::cfg::*;
use crate::explore::*;
use crate::refmodel::*;
use crate::run::*;
use crate::wraplevel::*;

pub struct PropDef {
    pub id: &'static str,
    /// builds in which the property is explored ("full" = default features, "min" = no default features)
    pub builds: &'static [&'static str],
    /// how cases are enumerated and what makes one non-trivial
    pub rule: &'static str,
    pub assumptions: &'static [&'static str],
    /// minimum number of non-trivial evaluations for a complete run (non-vacuity self-check)
    pub floor: fn(Tier) -> u64,
    pub run: fn(&mut Run) -> Result<(), MachineryError>,
}

pub const BOTH: &[&str] = &["full", "min"];
pub const FULL: &[&str] = &["full"];

pub const BASE_ASSUMPTIONS: &[&str] = &[
    "rustc/std 1.95 (str::lines, split, char::is_whitespace, is_alphanumeric)",
    "unicode-width 0.2.0 and unicode-linebreak 0.1.5 tables (the properties are stated relative to them)",
    "the reference models in /verif/mc/src/refmodel.rs and the explorer in /verif/mc/src/explore.rs",
    "small-scope hypothesis: inputs longer than the stated N, or containing characters that behave unlike their class representative in the menu, are not covered",
];

#[derive(Clone, Copy, PartialEq)]
pub enum WidthMode {
    /// 0 ..= display width + widest indent + 2, and the two extremes
    Display,
    /// 0 ..= byte length + widest indent + 2, and the two extremes (brackets the byte-length shortcut)
    Bytes,
}

/// upper bound of the explored width range for a text (DESIGN.md §3)
pub fn width_hi(text: &str, mode: WidthMode, maxindent: usize) -> usize {
    let d = match mode {
        WidthMode::Bytes => text.len(),
        WidthMode::Display => match ref_visible(text) {
            Some(v) => v.width(),
            None => text.chars().map(ref_char_width).sum(),
        },
    };
    d + maxindent + 2
}

pub fn indent_width(s: &str) -> usize {
    ref_visible(s).map(|v| v.width()).unwrap_or(s.chars().count())
}

/// Explore all texts over `alpha` up to length n under every configuration of
/// `gamma` x width range, evaluating the wrap-level oracles in `mask`.
pub fn text_space(r: &mut Run, name: &str, alpha: &[Sym], n: usize, gamma: &Gamma, mask: u32, mode: WidthMode, crlf_max_len: usize) -> Result<(), MachineryError> {
    let bases = gamma.bases();
    let space = Space {
        name: name.to_string(),
        menu: menu(alpha),
        max_len: n,
        desc: format!("texts over the menu, length <= {}; configurations: {}; widths: 0..=({}+widest indent+2), usize::MAX-1, usize::MAX; CRLF configurations only for texts containing a line break and of length <= {} (each such text both with CRLF breaks and with bare LFs)", n, gamma.describe(), if mode == WidthMode::Bytes { "byte length" } else { "display width" }, crlf_max_len),
    };
    r.space(space, |seq, cx| {
        let text_lf = build(seq, alpha);
        cx.set_input(&text_lf);
        let has_break = text_lf.contains('\n') || text_lf.contains('\r');
        let text_crlf = if has_break { text_lf.replace('\n', "\r\n") } else { String::new() };
        for base in &bases {
            if base.crlf && (!has_break || seq.len() > crlf_max_len) {
                continue;
            }
            let text: &str = if base.crlf { &text_crlf } else { &text_lf };
            let hi = width_hi(text, mode, indent_width(base.ii).max(indent_width(base.si)));
            for w in widths(hi) {
                let cfg = Cfg { width: w, ..*base };
                check_wrap(text, &cfg, mask, cx);
                if cfg.is_default() {
                    // the same configuration through the other two entry points (options by value, bare width)
                    check_wrap(text, &Cfg { entry: Entry::Owned, ..cfg }, mask, cx);
                    check_wrap(text, &Cfg { entry: Entry::Usize, ..cfg }, mask, cx);
                }
                if base.crlf && text_lf.contains('\n') {
                    // the same text with *bare* LFs under the CRLF configuration: a bare LF is then an
                    // ordinary character inside a paragraph, not a paragraph break
                    check_wrap(&text_lf, &cfg, mask, cx);
                }
            }
        }
    })
}

/// Sequences of whole words: deeper in *words* (and so in lines per paragraph) than the symbol
/// spaces, which spend their depth on separators.  The text is the words joined by single
/// spaces (the final space is dropped); a small configuration set keeps the space enumerable.
pub fn word_seq_space(r: &mut Run, name: &str, mask: u32, algs: Vec<Alg>) -> Result<(), MachineryError> {
    let alpha = [WD1, WD2, WD3, WDH, WD5];
    let n = r.tier.pick(6, 9);
    let g = Gamma { seps: seps(), algs, spls: vec![Spl::Hyphen], bws: vec![true, false], indents: vec![("", ""), ("> ", " ")], crlf: vec![false] };
    let bases = g.bases();
    let space = Space { name: name.to_string(), menu: menu(&alpha), max_len: n, desc: format!("<= {} whole words from the menu joined by single spaces (one paragraph, up to {} lines); {}; widths 1..=9", n, n, g.describe()) };
    r.space(space, |seq, cx| {
        let mut text = build(seq, &alpha);
        text.pop();
        cx.set_input(&text);
        for base in &bases {
            for w in 1..=9usize {
                let cfg = Cfg { width: w, ..*base };
                check_wrap(&text, &cfg, mask, cx);
                if cfg.is_default() {
                    check_wrap(&text, &Cfg { entry: Entry::Usize, ..cfg }, mask, cx);
                }
            }
        }
    })
}

/// Medium-sized *non-periodic* paragraphs: every sequence of up to 12 (thorough 16) words over
/// two word lengths, and of up to 8 (thorough 11) over three shapes incl. a hyphenated one —
/// the scale probes reach long inputs only along periodic ones, the other word spaces stop at
/// 6/9 words.
pub fn word_seq_long_space(r: &mut Run, name: &str, mask: u32, algs: Vec<Alg>) -> Result<(), MachineryError> {
    for (suffix, alpha, n, widths) in [("two-lengths", vec![WD2, WD5], r.tier.pick(12, 16), vec![5usize, 6, 8, 11, 13]), ("three-shapes", vec![WD1, WD3, WDH], r.tier.pick(8, 11), vec![3usize, 4, 5, 7, 9])] {
        let g = Gamma { seps: seps(), algs: algs.clone(), spls: vec![Spl::Hyphen], bws: vec![true, false], indents: vec![("", ""), ("  ", "")], crlf: vec![false] };
        let bases = g.bases();
        let space = Space { name: format!("{}({})", name, suffix), menu: menu(&alpha), max_len: n, desc: format!("<= {} whole words from the menu joined by single spaces (one paragraph, medium length, every non-periodic order); {}; widths {:?}", n, g.describe(), widths) };
        r.space(space, |seq, cx| {
            let mut text = build(seq, &alpha);
            text.pop();
            cx.set_input(&text);
            for base in &bases {
                for &w in &widths {
                    check_wrap(&text, &Cfg { width: w, ..*base }, mask, cx);
                }
            }
        })?;
    }
    Ok(())
}

/// "Every character in a fixed context": the scalar values enumerated by the all-characters
/// passes.  Quick = complete sub-ranges chosen to contain every script class the code
/// distinguishes (controls, Latin, combining marks, general punctuation incl. zero-width and
/// soft hyphen, CJK, Hangul Jamo, fullwidth forms, emoji, variation selectors/tags);
/// thorough = all 0x110000 code points (surrogates skipped).
pub const QUICK_BLOCKS: &[(u32, u32)] = &[(0x0000, 0x33FF), (0x4E00, 0x4FFF), (0xAC00, 0xACFF), (0xFE00, 0xFFFF), (0x1F000, 0x1FAFF), (0xE0000, 0xE01FF)];

pub fn scalar_space(t: Tier) -> u64 {
    match t {
        Tier::Quick => QUICK_BLOCKS.iter().map(|&(a, b)| (b - a + 1) as u64).sum(),
        Tier::Thorough => 0x110000,
    }
}

pub fn scalar_at(t: Tier, i: u64) -> Option<char> {
    match t {
        Tier::Thorough => char::from_u32(i as u32),
        Tier::Quick => {
            let mut i = i as u32;
            for &(a, b) in QUICK_BLOCKS {
                let n = b - a + 1;
                if i < n {
                    return char::from_u32(a + i);
                }
                i -= n;
            }
            None
        }
    }
}

pub fn scalar_desc(t: Tier) -> String {
    match t {
        Tier::Quick => format!("every scalar value in the blocks {:X?}", QUICK_BLOCKS),
        Tier::Thorough => "every Unicode scalar value (0..=0x10FFFF minus surrogates)".to_string(),
    }
}

/// Wrap-level oracles on every character in two fixed text contexts.
pub fn char_context_space(r: &mut Run, name: &str, mask: u32, algs: Vec<Alg>) -> Result<(), MachineryError> {
    let t = r.tier;
    let g = Gamma { seps: seps(), algs, spls: vec![Spl::Hyphen], bws: vec![true, false], indents: vec![("", ""), (">", "")], crlf: vec![false] };
    let bases = g.bases();
    r.range(name, &format!("{}; each in the texts \"ac cb\", \"cc-c d\" and (c other than space) \"ESC]0;c BEL a b\", \"ESC]8;;ccc1-2 BEL ab c\" (c as payload of a sequence, in the second one in front of a hyphen between alphanumerics); {}; widths 0..=5, MAX", scalar_desc(t), g.describe()), scalar_space(t), move |i, cx| {
        let c = match scalar_at(t, i) {
            Some(c) => c,
            None => return,
        };
        cx.seq = idx_seq(i);
        for text in [format!("a{c} {c}b"), format!("{c}{c}-{c} d"), format!("\x1b]0;{c}\x07a b"), format!("\x1b]8;;{c}{c}{c}1-2\x07ab c")] {
            if text.starts_with('\x1b') && c == ' ' {
                continue; // a space inside a sequence: the ASCII separator splits there by C11 (DESIGN.md §6)
            }
            cx.set_input(&text);
            for base in &bases {
                for w in (0..=5).chain([usize::MAX]) {
                    check_wrap(&text, &Cfg { width: w, ..*base }, mask, cx);
                }
            }
        }
    })
}

/// Wrap-level oracles on the escape grammar's byte ranges: for every byte b in 0x21..=0x7F the
/// texts "ESC [ 1 b X12 345" (b in '@'..='~' ends the CSI, otherwise X does) and
/// "ESC ] 8 b X BEL 12 345".  Text alphabets only carry sequences ending in 'm'.
pub fn escape_scan_space(r: &mut Run, name: &str, mask: u32, algs: Vec<Alg>) -> Result<(), MachineryError> {
    let g = Gamma { seps: seps(), algs, spls: vec![Spl::None, Spl::Hyphen], bws: vec![true, false], indents: vec![("", ""), (">", "")], crlf: vec![false] };
    let bases = g.bases();
    r.range(name, &format!("for every byte b in 0x21..=0x7F the texts \"ESC[1bX12 345\" and \"ESC]8bX BEL 12 345\" (well-formed by the grammar of C10 whatever b is; b = space is left to C10: the ASCII separator is specified (C11) to split at every space, also inside a sequence); {}; widths 0..=8, MAX", g.describe()), 95 * 2, move |i, cx| {
        let b = (0x21 + (i % 95)) as u8 as char;
        let text = if i / 95 == 0 { format!("\x1b[1{b}X12 345") } else { format!("\x1b]8{b}X\x0712 345") };
        cx.seq = idx_seq(i);
        cx.set_input(&text);
        for base in &bases {
            for w in (0..=8).chain([usize::MAX]) {
                check_wrap(&text, &Cfg { width: w, ..*base }, mask, cx);
            }
        }
    })
}

mod c01;
mod c02;
#[cfg(feature = "full")]
mod c03;
mod c04;
mod c05;
mod c06;
mod c07;
mod c08;
mod c09;
mod c10;
mod c11;
mod c12;
mod c13;
mod c14;
mod c15;
mod c16;
mod c17;
mod c18;
mod c19;
mod c20;
mod fragspace;
mod pmachine;
pub mod reps;
mod scale;

pub fn all() -> Vec<PropDef> {
    vec![
        c01::def(),
        c02::def(),
        #[cfg(feature = "full")]
        c03::def(),
        c04::def(),
        c05::def(),
        c06::def(),
        c07::def(),
        c08::def(),
        c09::def(),
        c10::def(),
        c11::def(),
        c12::def(),
        c13::def(),
        c14::def(),
        c15::def(),
        c16::def(),
        c17::def(),
        c18::def(),
        c19::def(),
        c20::def(),
    ]
}
