//! C13 — ANSI colour codes do not move line breaks (DESIGN.md §5/C13).
use super::*;
use serde_json::json;
use textwrap::wrap;

pub fn def() -> PropDef {
    PropDef {
        id: "C13",
        builds: BOTH,
        rule: "every plain text over {L,SP,HY,W,CM,NL} up to length N x every placement of 1 or 2 sequences from {CSI SGR, OSC hyperlink, OSC hyperlink with a hyphen in its URL, CSI with the non-letter final byte '~', SGR with colon sub-parameters, a 37-byte SGR} at symbol boundaries that satisfies the statement's attachment condition (touches a non-space, non-line-ending character; not adjacent to '-' when the hyphen splitter is active) x widths 0..=len+2 x separators x algorithms x none/hyphen x break_words; non-trivial = the coloured text wraps into >= 2 lines",
        assumptions: BASE_ASSUMPTIONS,
        floor: |t| t.pick(100_000, 300_000),
        run,
    }
}

const SEQS: &[&str] = &["\x1b[1m", "\x1b]8;;u\x1b\\", "\x1b]8;;1-2-3\x1b\\", "\x1b[3~", "\x1b[4:3m", "\x1b[38;2;255;255;255;48;2;255;255;255m"];

fn gamma() -> Gamma {
    Gamma { seps: seps(), algs: algs_default(), spls: vec![Spl::None, Spl::Hyphen], bws: vec![true, false], indents: vec![("", "")], crlf: vec![false] }
}

/// Insert sequences (slot, seq index) into the symbol list; returns the text.
fn coloured(syms: &[String], ins: &[(usize, usize)]) -> String {
    let mut s = String::new();
    for k in 0..=syms.len() {
        for &(slot, q) in ins {
            if slot == k {
                s.push_str(SEQS[q]);
            }
        }
        if k < syms.len() {
            s.push_str(&syms[k]);
        }
    }
    s
}

/// attachment condition of the statement for a run of sequences at `slot`
fn attached(syms: &[String], slot: usize, hyphen_active: bool) -> bool {
    let left = if slot > 0 { syms[slot - 1].chars().next_back() } else { None };
    let right = if slot < syms.len() { syms[slot].chars().next() } else { None };
    let is_anchor = |c: Option<char>| matches!(c, Some(ch) if ch != ' ' && ch != '\n' && ch != '\r');
    if !(is_anchor(left) || is_anchor(right)) {
        return false;
    }
    if hyphen_active && (left == Some('-') || right == Some('-')) {
        return false;
    }
    true
}

fn check_placement(plain: &str, syms: &[String], ins: &[(usize, usize)], bases: &[Cfg], cx: &mut Cx) {
    let text = coloured(syms, ins);
    let in_seqs: String = ins.iter().map(|&(_, q)| SEQS[q]).collect();
    let hi = plain.chars().count() + 2;
    for base in bases {
        let hy = base.spl == Spl::Hyphen;
        if !ins.iter().all(|&(slot, _)| attached(syms, slot, hy)) {
            continue;
        }
        for w in 0..=hi {
            cx.eval();
            let cfg = Cfg { width: w, ..*base };
            let o = cfg.opts();
            let d = || format!("{} coloured_text={:?}", cfg.d(), text);
            let (lc, lp) = match cx.guard(|| (wrap(&text, &o), wrap(plain, &o))) {
                Some(x) => x,
                None => continue,
            };
            cx.outcome(&lc);
            if lc.len() >= 2 {
                cx.nontrivial();
                if cx.want_sample() {
                    cx.sample(&|| json!({"plain": plain, "coloured": text, "config": cfg.d(), "lines": lc.iter().map(|l| l.to_string()).collect::<Vec<_>>()}));
                }
            }
            let mut intact = true;
            let mut out_seqs = String::new();
            let mut stripped: Vec<String> = vec![];
            for l in &lc {
                match ref_visible(l) {
                    Some(v) => {
                        for &(s, e) in &v.seqs {
                            out_seqs.push_str(&l[s..e]);
                        }
                        stripped.push(v.stripped());
                    }
                    None => {
                        intact = false;
                        stripped.push(l.to_string());
                    }
                }
            }
            cx.check("C13-no-sequence-cut-or-dropped", intact && out_seqs == in_seqs, &d, &|| json!({"lines": lc.iter().map(|l| l.to_string()).collect::<Vec<_>>(), "sequences_in": in_seqs, "sequences_out": out_seqs}));
            if intact {
                let plain_lines: Vec<String> = lp.iter().map(|l| l.to_string()).collect();
                cx.check("C13-same-breaks-as-plain", stripped == plain_lines, &d, &|| json!({"coloured_lines_stripped": stripped, "plain_lines": plain_lines}));
            }
        }
    }
}

/// three sequences in up to three slots (a styled, coloured hyperlink is three sequences in a row)
fn space3(r: &mut Run, name: &str, n: usize) -> Result<(), MachineryError> {
    let alpha = [L, SP, HY, W, NL];
    let bases = gamma().bases();
    // indices into SEQS: SGR, hyperlink, hyperlink with hyphens
    let three = [0usize, 1, 2];
    let sp = Space { name: name.into(), menu: menu(&alpha), max_len: n, desc: format!("plain texts of length <= {} x every placement of 3 sequences from {{SGR, hyperlink, hyperlink with hyphens}} in non-decreasing slots x {} x widths 0..=len+2", n, gamma().describe()) };
    r.space(sp, |seq, cx| {
        if seq.is_empty() {
            return;
        }
        let syms: Vec<String> = {
            let whole = build(seq, &alpha);
            let mut v = vec![];
            let mut it = whole.chars();
            for &k in seq {
                let len = build(&[k], &alpha).chars().count();
                v.push(it.by_ref().take(len).collect::<String>());
            }
            v
        };
        let plain: String = syms.concat();
        cx.set_input(&plain);
        let slots = syms.len() + 1;
        for s1 in 0..slots {
            for s2 in s1..slots {
                for s3 in s2..slots {
                    for &q1 in &three {
                        for &q2 in &three {
                            for &q3 in &three {
                                check_placement(&plain, &syms, &[(s1, q1), (s2, q2), (s3, q3)], &bases, cx);
                            }
                        }
                    }
                }
            }
        }
    })
}

fn space(r: &mut Run, name: &str, n: usize, double: bool) -> Result<(), MachineryError> {
    let alpha = [L, SP, HY, W, CM, NL];
    let bases = gamma().bases();
    let sp = Space { name: name.into(), menu: menu(&alpha), max_len: n, desc: format!("plain texts of length <= {} x {} of sequences {:?} at symbol boundaries (attachment condition enforced per configuration) x {} x widths 0..=len+2", n, if double { "every placement of 2 sequences (same or different slots, order as listed)" } else { "every placement of 1 sequence" }, SEQS, gamma().describe()) };
    r.space(sp, |seq, cx| {
        if seq.is_empty() {
            return;
        }
        let syms: Vec<String> = {
            // build symbol by symbol so that fresh letters stay consistent with the whole text
            let whole = build(seq, &alpha);
            let mut v = vec![];
            let mut it = whole.chars();
            for &k in seq {
                let len = build(&[k], &alpha).chars().count();
                v.push(it.by_ref().take(len).collect::<String>());
            }
            v
        };
        let plain: String = syms.concat();
        cx.set_input(&plain);
        let slots = syms.len() + 1;
        if !double {
            for s1 in 0..slots {
                for q1 in 0..SEQS.len() {
                    check_placement(&plain, &syms, &[(s1, q1)], &bases, cx);
                }
            }
        } else {
            for s1 in 0..slots {
                for s2 in s1..slots {
                    for q1 in 0..SEQS.len() {
                        for q2 in 0..SEQS.len() {
                            check_placement(&plain, &syms, &[(s1, q1), (s2, q2)], &bases, cx);
                        }
                    }
                }
            }
        }
    })
}

fn run(r: &mut Run) -> Result<(), MachineryError> {
    let t = r.tier;
    space(r, "C13/one-sequence", t.pick(5, 6), false)?;
    space(r, "C13/two-sequences", t.pick(3, 5), true)?;
    space3(r, "C13/three-sequences", t.pick(2, 3))
}
