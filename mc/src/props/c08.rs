//! C08 — every output line carries the configured indent (DESIGN.md §5/C08).
use super::*;
use serde_json::json;
use textwrap::wrap;

pub fn def() -> PropDef {
    PropDef {
        id: "C08",
        builds: BOTH,
        rule: "every text over a newline-rich menu up to length N x 25 ordered indent pairs x separator x algorithm x splitter x break_words x LF/CRLF x width range; plus every history of <= 3/4 paragraphs through the real per-paragraph transition function; plus a differential over indent pairs with equal display widths and emptiness; non-trivial = a text with >= 2 paragraphs or a blank paragraph under a non-empty indent pair (T), a history of >= 2 paragraphs (P), outputs with >= 2 lines (differential)",
        assumptions: BASE_ASSUMPTIONS,
        floor: |t| t.pick(100_000, 300_000),
        run,
    }
}

const IND: &[&str] = &["", ">", "| ", "\u{4f60}", "\x1b[1m"];

fn gamma() -> Gamma {
    let mut indents = vec![];
    for a in IND {
        for b in IND {
            indents.push((*a, *b));
        }
    }
    Gamma { seps: seps(), algs: algs_default(), spls: vec![Spl::None, Spl::Hyphen], bws: vec![true, false], indents, crlf: vec![false, true] }
}

/// indent pairs that agree in display widths and emptiness, position by position
fn diff_pairs() -> Vec<((&'static str, &'static str), (&'static str, &'static str))> {
    let mut v = vec![((">", "#"), ("|", "!")), (("\u{4f60}", ">"), (">>", "#")), (("", "> "), ("", "| ")), ((">>>", ""), ("#|#", ""))];
    if cfg!(feature = "full") {
        // zero display width, non-empty (the zero-width space has width 0 only with the unicode-width tables)
        v.push((("\x1b[1m", ""), ("\u{200b}", "")));
        v.push(((">", "\x1b[1m"), ("#", "\u{200b}")));
    }
    v
}

fn run(r: &mut Run) -> Result<(), MachineryError> {
    let t = r.tier;
    text_space(r, "C08/texts", &[L, SP, NL, HY, W], t.pick(5, 8), &gamma(), M_C08, WidthMode::Display, 4)?;
    pmachine::p_space(r, "C08/paragraph-machine", t.pick(3, 5), true, false)?;
    word_seq_space(r, "C08/word-sequences", M_C08, algs_default())?;
    // user-supplied wrap algorithms (one word per line; a naive greedy one that can emit an empty
    // first line): the indents do not depend on the algorithm
    let gc = Gamma { seps: seps(), algs: vec![Alg::CustomOnePerLine, Alg::CustomNaiveGreedy], spls: vec![Spl::Hyphen], bws: vec![true, false], indents: vec![("", ""), (">", ""), ("", "> "), ("* ", "  "), ("\u{4f60}", ">")], crlf: vec![false] };
    // a hyphen-inserting splitter: lines that end in an inserted hyphen are built on a different
    // code path than the others
    let gh = Gamma { seps: seps(), algs: algs_default(), spls: vec![Spl::Cust], bws: vec![true, false], indents: vec![("", ""), (">", ""), ("", "> "), ("* ", "  "), ("\u{4f60}", ">")], crlf: vec![false] };
    text_space(r, "C08/hyphen-inserting-splitter", &[L, LLL, SP, NL, W], t.pick(4, 6), &gh, M_C08, WidthMode::Display, 0)?;
    text_space(r, "C08/custom-algorithms", &[L, LLL, SP, NL, HY, W], t.pick(4, 6), &gc, M_C08, WidthMode::Display, 0)?;

    // differential: what follows the indent depends only on the indents' display widths and emptiness
    let alpha = [L, SP, NL, HY, W, OP];
    let n = t.pick(4, 7);
    let g = Gamma { seps: seps(), algs: algs_default(), spls: vec![Spl::None, Spl::Hyphen], bws: vec![true, false], indents: vec![("", "")], crlf: vec![false] };
    let bases = g.bases();
    let pairs = diff_pairs();
    let space = Space {
        name: "C08/indent-differential".into(),
        menu: menu(&alpha),
        max_len: n,
        desc: format!("texts of length <= {}; for each of the indent-pair couples {:?} (equal display widths and emptiness) the lines minus their indents must be identical; {} ; widths 0..=display width+5, MAX", n, pairs, g.describe()),
    };
    r.space(space, |seq, cx| {
        let text = build(seq, &alpha);
        cx.set_input(&text);
        let hi = width_hi(&text, WidthMode::Display, 3);
        for base in &bases {
            for w in (0..=hi).chain([usize::MAX]) {
                for (pa, pb) in &pairs {
                    cx.eval();
                    let ca = Cfg { width: w, ii: pa.0, si: pa.1, ..*base };
                    let cb = Cfg { width: w, ii: pb.0, si: pb.1, ..*base };
                    let d = || format!("{} VERSUS initial_indent={:?} subsequent_indent={:?}", ca.d(), pb.0, pb.1);
                    let (la, lb) = match cx.guard(|| (wrap(&text, ca.opts()), wrap(&text, cb.opts()))) {
                        Some(x) => x,
                        None => continue,
                    };
                    let strip = |ls: &Vec<std::borrow::Cow<str>>, p: (&str, &str)| -> Option<Vec<String>> { ls.iter().enumerate().map(|(j, l)| l.strip_prefix(if j == 0 { p.0 } else { p.1 }).map(|x| x.to_string())).collect() };
                    match (strip(&la, *pa), strip(&lb, *pb)) {
                        (Some(a), Some(b)) => {
                            cx.outcome(&a);
                            if a.len() >= 2 {
                                cx.nontrivial();
                                if cx.want_sample() {
                                    cx.sample(&|| json!({"text": text, "config": d(), "lines_minus_indent": a}));
                                }
                            }
                            cx.check("C08-depends-only-on-indent-widths", a == b, &d, &|| json!({"with_first_pair": a, "with_second_pair": b}));
                        }
                        _ => cx.note("C08-differential-skipped-missing-indent(see C08-indent)"),
                    }
                }
            }
        }
    })
}
