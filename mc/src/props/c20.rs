//! C20 — wrap_columns (DESIGN.md §5/C20).
use super::*;
use serde_json::json;
use textwrap::core::display_width;
use textwrap::{wrap, wrap_columns};

pub fn def() -> PropDef {
    PropDef {
        id: "C20",
        builds: BOTH,
        rule: "every text over {L,SP,W,NL,HY,CSI} up to length N x columns 1..=4 x total widths 0..=12 x 5 gap triples (empty, ASCII, multi-byte, multi-character) x break_words x algorithms; non-trivial = >= 2 wrapped lines, or a wrapped line wider than the column",
        assumptions: BASE_ASSUMPTIONS,
        floor: |t| t.pick(50_000, 150_000),
        run,
    }
}

fn run(r: &mut Run) -> Result<(), MachineryError> {
    let t = r.tier;
    let alpha = [L, SP, W, NL, HY, CSI];
    let n = t.pick(5, 7);
    let gaps = [("", "", ""), ("|", "|", "|"), ("\u{4f60}", " ", ""), ("", "--", ">"), ("| ", " | ", " |")];
    let space = Space { name: "C20/texts".into(), menu: menu(&alpha), max_len: n, desc: format!("texts of length <= {} x columns 1..=4 x total widths 0..=12 x gap triples {:?} x break_words x algorithms", n, gaps) };
    r.space(space, |seq, cx| {
        let text = build(seq, &alpha);
        cx.set_input(&text);
        check_text(&text, &gaps, cx);
    })?;
    // longer words and a zero-width ASCII control character (lines of 8 bytes and more)
    let tokens = [L, LLL, SP, TAB, W, NL, CSI];
    let n2 = t.pick(4, 5);
    let space = Space { name: "C20/tokens-and-tab".into(), menu: menu(&tokens), max_len: n2, desc: format!("texts of length <= {} over multi-letter tokens, TAB, SGR x the same configurations", n2) };
    r.space(space, |seq, cx| {
        let text = build(seq, &tokens);
        cx.set_input(&text);
        check_text(&text, &gaps, cx);
    })?;
    // total widths far above the text: cells padded with many blanks (64, 128, 256 are chunk sizes)
    let small = [L, SP, W, NL];
    let space = Space { name: "C20/large-widths".into(), menu: menu(&small), max_len: 3, desc: "texts of length <= 3 x columns 1..=3 x total widths {63,64,65,127,128,129,130,200,257,300,1000} x gap triples x break_words x algorithms".into() };
    r.space(space, |seq, cx| {
        let text = build(seq, &small);
        cx.set_input(&text);
        check_text_widths(&text, &gaps, &[63, 64, 65, 127, 128, 129, 130, 200, 257, 300, 1000], 3, cx);
    })?;
    // Options that carry indents: the cells are the lines of wrap(text, options.width(column width)),
    // indents included
    let space = Space { name: "C20/options-with-indents".into(), menu: menu(&small), max_len: t.pick(4, 6), desc: "texts x columns 1..=4 x total widths 0..=12 x gap triples x break_words x algorithms x Options with indent pairs {(\"* \",\"  \"), (\"\",\"> \")}".into() };
    r.space(space, |seq, cx| {
        let text = build(seq, &small);
        cx.set_input(&text);
        let totals: Vec<usize> = (0..=12).collect();
        check_text_full(&text, &gaps, &totals, 4, &[("* ", "  "), ("", "> ")], cx);
    })?;
    // every number of wrapped lines against every number of columns: the column-major layout with
    // rows = ceil(lines / columns) leaves 0..columns-1 blank cells, spread over the last columns
    let lmax = t.pick(16, 40) as u64;
    let cmax = t.pick(7, 9);
    r.range("C20/line-count-by-column-count", &format!("texts of L = 0..={} distinct words (\"a0 a1 ...\", every third one a double-width character) joined by spaces or by line breaks x columns 1..={} x total widths giving column widths 2, 3 and 5 x gap triples x break_words x algorithms", lmax, cmax), (lmax + 1) * 2, move |i, cx| {
        let l = (i / 2) as usize;
        let sep = if i % 2 == 0 { " " } else { "\n" };
        let words: Vec<String> = (0..l).map(|k| if k % 3 == 2 { "\u{4f60}".to_string() } else { format!("{}{}", (b'a' + (k % 26) as u8) as char, k % 10) }).collect();
        let text = words.join(sep);
        cx.seq = idx_seq(i);
        cx.set_input(&text);
        for cols in 1..=cmax {
            // column width = max(1, (total - gaps) / columns): totals for the gap-free triple
            let totals: Vec<usize> = [2usize, 3, 5].iter().map(|cw| cw * cols).chain([2 * cols + cols - 1]).collect();
            check_text_cols(&text, &gaps, &totals, cols, cx);
        }
    })?;
    // the escape grammar's byte ranges (text alphabets only carry sequences ending in 'm')
    r.range("C20/escape-grammar-scan", "for every byte b in 0x21..=0x7F the texts \"ESC[1bX12 345\" and \"ESC]8bX BEL 12 345\" through the same layout oracle (b = space excluded: the separators are specified to split at spaces, also inside a sequence)", 95 * 2, move |i, cx| {
        let b = (0x21 + (i % 95)) as u8 as char;
        let text = if i / 95 == 0 { format!("\x1b[1{b}X12 345") } else { format!("\x1b]8{b}X\x0712 345") };
        cx.seq = idx_seq(i);
        cx.set_input(&text);
        check_text(&text, &gaps, cx);
    })
}

fn check_text(text: &str, gaps: &[(&'static str, &'static str, &'static str)], cx: &mut Cx) {
    let totals: Vec<usize> = (0..=12).collect();
    check_text_widths(text, gaps, &totals, 4, cx)
}

fn check_text_widths(text: &str, gaps: &[(&'static str, &'static str, &'static str)], totals: &[usize], max_cols: usize, cx: &mut Cx) {
    check_text_full(text, gaps, totals, max_cols, &[("", "")], cx)
}

fn check_text_cols(text: &str, gaps: &[(&'static str, &'static str, &'static str)], totals: &[usize], cols: usize, cx: &mut Cx) {
    check_text_range(text, gaps, totals, cols, cols, &[("", "")], cx)
}

fn check_text_full(text: &str, gaps: &[(&'static str, &'static str, &'static str)], totals: &[usize], max_cols: usize, indents: &[(&'static str, &'static str)], cx: &mut Cx) {
    check_text_range(text, gaps, totals, 1, max_cols, indents, cx)
}

fn check_text_range(text: &str, gaps: &[(&'static str, &'static str, &'static str)], totals: &[usize], min_cols: usize, max_cols: usize, indents: &[(&'static str, &'static str)], cx: &mut Cx) {
    for &(ii, si) in indents {
        let gaps = gaps.iter().copied();

        for cols in min_cols..=max_cols {
            for &total in totals {
                for (l, m, rg) in gaps.clone() {
                    for bw in [true, false] {
                        for alg in algs_default() {
                            cx.eval();
                            let cfg = Cfg { entry: Entry::Ref, width: total, sep: *seps().last().unwrap(), alg, spl: Spl::Hyphen, bw, ii, si, crlf: false };
                            let o = cfg.opts();
                            let d = || format!("columns={} total_width={} gaps=({:?},{:?},{:?}) break_words={} algorithm={:?} initial_indent={:?} subsequent_indent={:?}", cols, total, l, m, rg, bw, alg, ii, si);
                            let rows = match cx.guard_quiet(|| wrap_columns(text, cols, o.clone(), l, m, rg)) {
                                Some(x) => x,
                                None => {
                                    let msg = cx.last_panic();
                                    cx.fail("C20-never-fails", &d, &|| json!({"outcome": "panic", "panic": msg}));
                                    continue;
                                }
                            };
                            cx.pass("C20-never-fails");
                            cx.outcome(&rows);
                            let inner = total.saturating_sub(ref_width(l)).saturating_sub(ref_width(rg)).saturating_sub(ref_width(m) * (cols - 1));
                            let colw = std::cmp::max(inner / cols, 1);
                            let lines = match cx.guard(|| wrap(text, o.clone().width(colw))) {
                                Some(x) => x,
                                None => continue,
                            };
                            let nrows = (lines.len() + cols - 1) / cols;
                            let mut why = "";
                            if rows.len() != nrows {
                                why = "number of rows is not ceil(lines / columns)";
                            }
                            let mut k_extra: Option<usize> = None;
                            if why.is_empty() {
                                for rno in 0..nrows {
                                    let mut pre = String::from(l);
                                    for c in 0..cols {
                                        match lines.get(rno + c * nrows) {
                                            Some(cl) => {
                                                pre.push_str(cl);
                                                pre.push_str(&" ".repeat(colw.saturating_sub(ref_width(cl))));
                                            }
                                            None => pre.push_str(&" ".repeat(colw)),
                                        }
                                        if c + 1 < cols {
                                            pre.push_str(m);
                                        }
                                    }
                                    let row = &rows[rno];
                                    let body = match row.strip_prefix(pre.as_str()).and_then(|x| x.strip_suffix(rg)) {
                                        Some(b) => b,
                                        None => {
                                            why = "row is not left gap + column-major cells joined by the middle gap + padding + right gap";
                                            break;
                                        }
                                    };
                                    if !body.bytes().all(|b| b == b' ') {
                                        why = "unexpected characters between the last cell and the right gap";
                                        break;
                                    }
                                    match k_extra {
                                        None => k_extra = Some(body.len()),
                                        Some(k) => {
                                            if k != body.len() {
                                                why = "the remainder given to the last column differs between rows";
                                                break;
                                            }
                                        }
                                    }
                                }
                            }
                            let wide = lines.iter().any(|cl| ref_width(cl) > colw);
                            if lines.len() >= 2 || wide {
                                cx.nontrivial();
                                if cx.want_sample() {
                                    cx.sample(&|| json!({"text": text, "config": d(), "rows": rows}));
                                }
                            }
                            if wide {
                                cx.note("C20-line-wider-than-column(protrudes)");
                            }
                            cx.check("C20-layout", why.is_empty(), &d, &|| json!({"why": why, "rows": rows, "wrapped_lines": lines.iter().map(|x| x.to_string()).collect::<Vec<_>>(), "column_width": colw}));
                            if why.is_empty() && !wide {
                                let exp = ref_width(l) + ref_width(rg) + ref_width(m) * (cols - 1) + cols * colw + k_extra.unwrap_or(0);
                                let ok = rows.iter().all(|r| ref_width(r) == exp);
                                cx.check("C20-rows-have-equal-width", ok, &d, &|| json!({"rows": rows, "expected_width": exp}));
                            }
                            let _ = display_width;
                        }
                    }
                }
            }
        }
    }
}
