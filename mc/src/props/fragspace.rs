//! Engine F helpers: fragment menus, line-width lists, penalty records.
use super::*;

pub fn frag_menu(ws: &[f64], wss: &[f64], ps: &[f64]) -> Vec<Frag> {
    let mut v = vec![];
    for &w in ws {
        for &s in wss {
            for &p in ps {
                v.push(Frag { w, ws: s, p });
            }
        }
    }
    v
}

pub fn frag_names(m: &[Frag]) -> Vec<String> {
    m.iter().map(|f| format!("(w={},ws={},pen={})", f.w, f.ws, f.p)).collect()
}

pub fn frags_of(seq: &[u8], menu: &[Frag]) -> Vec<Frag> {
    seq.iter().map(|&k| menu[k as usize]).collect()
}

pub fn frags_str(fr: &[Frag]) -> String {
    fr.iter().map(|f| format!("({},{},{})", f.w, f.ws, f.p)).collect::<Vec<_>>().join(" ")
}

#[cfg(feature = "full")]
pub fn pen_of(p: [usize; 5]) -> Pen {
    Pen { nline: p[0] as f64, overflow: p[1] as f64, fraction: p[2] as f64, short: p[3] as f64, hyphen: p[4] as f64 }
}

/// line lengths of a result and the pointer-contiguity verdict of C06
pub fn partition_of<'a>(frags: &'a [Frag], lines: &[&'a [Frag]]) -> Result<Vec<usize>, &'static str> {
    if frags.is_empty() {
        return if lines.len() == 1 && lines[0].is_empty() { Ok(vec![0]) } else { Err("an empty input must yield exactly one empty line") };
    }
    let mut expect = frags.as_ptr();
    let mut total = 0;
    let mut lens = vec![];
    for l in lines {
        if l.is_empty() {
            return Err("empty line");
        }
        if l.as_ptr() != expect {
            return Err("lines are not contiguous, in-order runs of the input slice");
        }
        // in-bounds: total checked below before any further use
        total += l.len();
        if total > frags.len() {
            return Err("lines cover more than the input");
        }
        expect = frags[total..].as_ptr();
        lens.push(l.len());
    }
    if total != frags.len() {
        return Err("lines do not cover the whole input");
    }
    Ok(lens)
}
