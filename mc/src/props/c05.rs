//! C05 — text that fits is returned unchanged; the shortcut is unobservable (DESIGN.md §5/C05).
use super::*;
use serde_json::json;
use std::borrow::Cow;
use textwrap::fill;

pub fn def() -> PropDef {
    PropDef {
        id: "C05",
        builds: BOTH,
        rule: "every text over {L,SP,HY,W,E2,CM,CSI,TAB,OSH (an OSC hyperlink with a hyphen in its URL)}(+NL) up to length N x separator x splitter x break_words x algorithm x 10 indent pairs (empty, 1 column, 2 columns in 3 bytes, ending in a space, non-empty of zero width; both positions) x widths 0..=byte length+indent+2 and the extremes (brackets both the display-width and the byte-length threshold); oracle 1 on every paragraph that fits; oracle 2 = differential of the real shortcut entry points against the real general-path entry points (--cfg fuzzing seam); non-trivial = a paragraph that fits by display width but for which the byte-length shortcut cannot be taken, or a differential evaluated with the shortcut eligible",
        assumptions: BASE_ASSUMPTIONS,
        floor: |t| t.pick(100_000, 300_000),
        run,
    }
}

fn gamma(crlf: bool) -> Gamma {
    // empty / one column / two columns (3 bytes) / ending in a space, in both positions
    let indents = vec![("", ""), (">", ""), ("", ">"), ("\u{4f60}", ">"), (">", "\u{4f60}"), ("> ", ""), ("", "> "), ("> ", "\u{4f60}"), ("\x1b[1m", ""), ("", "\x1b[1m")];
    Gamma { seps: seps(), algs: algs_default(), spls: vec![Spl::None, Spl::Hyphen], bws: vec![true, false], indents, crlf: if crlf { vec![false, true] } else { vec![false] } }
}

fn differential(r: &mut Run, name: &str, alpha: &[Sym], n: usize) -> Result<(), MachineryError> {
    let g = gamma(false);
    let bases = g.bases();
    let space = Space {
        name: name.into(),
        menu: menu(alpha),
        max_len: n,
        desc: format!("differential on the real seam: wrap_single_line vs wrap_single_line_slow_path from states [] and [\"x\"], fill vs fill_slow_path; {}; widths 0..=byte length+indent+2, MAX-1, MAX", g.describe()),
    };
    r.space(space, |seq, cx| {
        let text = build(seq, alpha);
        cx.set_input(&text);
        let single = !text.contains('\n');
        for base in &bases {
            let hi = width_hi(&text, WidthMode::Bytes, indent_width(base.ii).max(indent_width(base.si)));
            for w in widths(hi) {
                cx.eval();
                let cfg = Cfg { width: w, ..*base };
                let o = cfg.opts();
                let d = || cfg.d();
                if text.len() < w {
                    cx.nontrivial();
                    cx.note("C05-shortcut-eligible-by-bytes");
                } else if ref_visible(&text).map(|v| v.width() <= w).unwrap_or(false) {
                    cx.note("C05-fits-by-width-but-not-by-bytes");
                }
                if single {
                    for pre in [false, true] {
                        let r = cx.guard(|| {
                            let mut l1: Vec<Cow<str>> = if pre { vec![Cow::from("x")] } else { vec![] };
                            let mut l2 = l1.clone();
                            textwrap::fuzzing::wrap_single_line(&text, &o, &mut l1);
                            textwrap::fuzzing::wrap_single_line_slow_path(&text, &o, &mut l2);
                            (l1.iter().map(|l| l.to_string()).collect::<Vec<_>>(), l2.iter().map(|l| l.to_string()).collect::<Vec<_>>())
                        });
                        if let Some((l1, l2)) = r {
                            cx.outcome(&l1);
                            cx.check("C05-wrap-shortcut-unobservable", l1 == l2, &d, &|| json!({"state_before": if pre { vec!["x"] } else { vec![] }, "wrap_single_line": l1, "wrap_single_line_slow_path": l2}));
                        }
                    }
                }
                if let Some((f1, f2)) = cx.guard(|| (fill(&text, &o), textwrap::fuzzing::fill_slow_path(&text, o.clone()))) {
                    cx.check("C05-fill-shortcut-unobservable", f1 == f2, &d, &|| json!({"fill": f1, "fill_slow_path": f2}));
                    if cx.want_sample() && text.len() < w && !text.is_empty() {
                        cx.sample(&|| json!({"text": text, "config": cfg.d(), "fill": f1}));
                    }
                }
            }
        }
    })
}

fn run(r: &mut Run) -> Result<(), MachineryError> {
    let t = r.tier;
    let a1 = [L, SP, HY, W, E2, CM, CSI, TAB, OSH];
    let a2 = [L, SP, W, E2, CSI, TAB, NL];
    text_space(r, "C05/fits(single paragraph)", &a1, t.pick(4, 6), &gamma(false), M_C05, WidthMode::Bytes, 0)?;
    text_space(r, "C05/fits(paragraphs)", &a2, t.pick(4, 6), &gamma(true), M_C05, WidthMode::Bytes, 3)?;
    escape_scan_space(r, "C05/escape-grammar-scan", M_C05, algs_default())?;
    char_context_space(r, "C05/all-characters-in-context", M_C05, algs_default())?;
    word_seq_space(r, "C05/word-sequences", M_C05, algs_default())?;
    differential(r, "C05/differential(paragraphs)", &a2, t.pick(3, 6))?;
    differential(r, "C05/differential", &a1, t.pick(4, 5))?;
    Ok(())
}
