//! C15 — unfill inverts fill; structural guarantees on arbitrary input (DESIGN.md §5/C15).
use super::*;
use serde_json::json;
use textwrap::{fill, unfill, LineEnding, Options, WordSeparator, WordSplitter, WrapAlgorithm};

pub fn def() -> PropDef {
    PropDef {
        id: "C15",
        builds: BOTH,
        rule: "round trip: every paragraph of 1..=k words from {a,bb,ccc,e-acute,CJK,x-y,d.,a word wrapped in SGR sequences,a word containing a TAB} x widths 0..=12 x 81 ordered indent pairs over 9 prefix-character indents (every documented prefix character occurs); a scan of every printable ASCII character as first character of a word / as indent x algorithms x LF/CRLF x with/without trailing ending (ASCII separator, no hyphenation, break_words off); structural: every string over {SP,#,L,NL,CR,E2,HY,/} up to length N; non-trivial = a filled form with >= 2 lines (round trip) / an input with >= 2 non-empty lines (structural)",
        assumptions: BASE_ASSUMPTIONS,
        floor: |t| t.pick(100_000, 300_000),
        run,
    }
}

pub const VOCAB: &[&str] = &["a", "bb", "ccc", "\u{e9}", "\u{4f60}", "x-y", "d.", "\x1b[1mq\x1b[0m", "t\tu"];
pub const INDENTS: &[&str] = &["", " ", "> ", "> - ", "  ", "#", "//", "* ", "+ "];

pub fn algs() -> Vec<(&'static str, WrapAlgorithm)> {
    vec![
        ("first-fit", WrapAlgorithm::FirstFit),
        #[cfg(feature = "full")]
        ("optimal-fit", WrapAlgorithm::new_optimal_fit()),
    ]
}

pub fn space_only_options(width: usize, alg: WrapAlgorithm, le: LineEnding, ii: &'static str, si: &'static str) -> Options<'static> {
    Options::new(width).break_words(false).word_separator(WordSeparator::AsciiSpace).wrap_algorithm(alg).word_splitter(WordSplitter::NoHyphenation).line_ending(le).initial_indent(ii).subsequent_indent(si)
}

fn roundtrip(r: &mut Run, name: &str, k: usize, indents: &'static [&'static str]) -> Result<(), MachineryError> {
    let space = Space { name: name.into(), menu: VOCAB.iter().map(|s| s.to_string()).collect(), max_len: k, desc: format!("paragraphs of 1..={} words joined by single spaces x widths 0..=12 x all ordered pairs over indents {:?} x algorithms x LF/CRLF x trailing ending yes/no", k, indents) };
    r.space(space, |seq, cx| {
        if seq.is_empty() {
            return;
        }
        let text: String = seq.iter().map(|&i| VOCAB[i as usize]).collect::<Vec<_>>().join(" ");
        cx.set_input(&text);
        for width in 0..=12usize {
            for (an, alg) in algs() {
                for le in [LineEnding::LF, LineEnding::CRLF] {
                    for ii in indents {
                        for si in indents {
                            for trailing in [false, true] {
                                cx.eval();
                                let o = space_only_options(width, alg, le, ii, si);
                                let d = || format!("width={} algorithm={} ending={:?} initial_indent={:?} subsequent_indent={:?} trailing_ending={}", width, an, le, ii, si, trailing);
                                let res = cx.guard(|| {
                                    let mut filled = fill(&text, &o);
                                    let nlines = filled.split(le.as_str()).count();
                                    let widest = filled.split(le.as_str()).map(ref_width).max().unwrap_or(0);
                                    if trailing {
                                        filled.push_str(le.as_str());
                                    }
                                    let (t, uo) = unfill(&filled);
                                    (filled.clone(), nlines, widest, t, uo.initial_indent.to_string(), uo.subsequent_indent.to_string(), uo.width, uo.line_ending)
                                });
                                let (filled, nlines, widest, t, uii, usi, uw, ule) = match res {
                                    Some(x) => x,
                                    None => continue,
                                };
                                cx.outcome(&filled);
                                let mut expect = text.clone();
                                if trailing {
                                    expect.push_str(le.as_str());
                                }
                                let mut ok = t == expect && uii == *ii && uw == widest;
                                if nlines >= 2 {
                                    ok = ok && usi == *si && ule == le;
                                    cx.nontrivial();
                                    if cx.want_sample() {
                                        cx.sample(&|| json!({"paragraph": text, "config": d(), "filled": filled, "unfilled": t}));
                                    }
                                }
                                cx.check("C15-roundtrip", ok, &d, &|| json!({"filled": filled, "unfilled_text": t, "expected_text": expect, "initial_indent": uii, "subsequent_indent": usi, "width": uw, "widest_line": widest, "line_ending": format!("{:?}", ule)}));
                            }
                        }
                    }
                }
            }
        }
    })
}

fn structural(r: &mut Run, n: usize) -> Result<(), MachineryError> {
    let alpha = [SP, HASH, L, NL, CR, E2, HY, SLASH];
    let pc: &[char] = &[' ', '-', '+', '*', '>', '#', '/'];
    let space = Space { name: "C15/structural".into(), menu: menu(&alpha), max_len: n, desc: format!("all strings of length <= {}: indents consist of prefix characters and are prefixes of the lines they describe; the text has no line break other than a final one; for input without empty lines the ending is CRLF iff >= 1 line ending and all are CRLF", n) };
    r.space(space, |seq, cx| {
        let s = build(seq, &alpha);
        cx.set_input(&s);
        cx.eval();
        let d = || String::new();
        let res = cx.guard(|| {
            let (t, o) = unfill(&s);
            (t, o.initial_indent.to_string(), o.subsequent_indent.to_string(), o.line_ending)
        });
        let (t, ii, si, le) = match res {
            Some(x) => x,
            None => return,
        };
        cx.outcome(&(&t, &ii, &si));
        cx.check("C15-indents-are-prefix-characters", ii.chars().all(|c| pc.contains(&c)) && si.chars().all(|c| pc.contains(&c)), &d, &|| json!({"initial_indent": ii, "subsequent_indent": si}));
        // lines: split at '\n', strip one '\r' before each '\n'
        let mut raw: Vec<&str> = s.split('\n').collect();
        let nraw = raw.len();
        for (k, l) in raw.iter_mut().enumerate() {
            if k + 1 < nraw {
                *l = l.strip_suffix('\r').unwrap_or(l);
            }
        }
        let nonempty: Vec<&str> = raw.iter().copied().filter(|l| !l.is_empty()).collect();
        if nonempty.len() >= 2 {
            cx.nontrivial();
            if cx.want_sample() {
                cx.sample(&|| json!({"input": s, "text": t, "initial_indent": ii, "subsequent_indent": si, "line_ending": format!("{:?}", le)}));
            }
        }
        if let Some(f) = nonempty.first() {
            cx.check("C15-initial-indent-is-prefix-of-first-line", f.starts_with(ii.as_str()), &d, &|| json!({"first_line": f, "initial_indent": ii}));
        }
        let bad = nonempty.iter().skip(1).find(|l| !l.starts_with(si.as_str()));
        cx.check("C15-subsequent-indent-is-prefix-of-later-lines", bad.is_none(), &d, &|| json!({"line": bad, "subsequent_indent": si}));
        let inner = t.find('\n').map(|p| p != t.len() - 1).unwrap_or(false);
        cx.check("C15-no-inner-line-break", !inner, &d, &|| json!({"text": t}));
        let has_empty = raw.iter().enumerate().any(|(k, l)| l.is_empty() && k + 1 != nraw);
        if !has_empty {
            let total = s.matches('\n').count();
            let crlf = s.matches("\r\n").count();
            let exp = if total > 0 && crlf == total { LineEnding::CRLF } else { LineEnding::LF };
            cx.check("C15-line-ending-detection", le == exp, &d, &|| json!({"detected": format!("{:?}", le), "expected": format!("{:?}", exp)}));
        }
    })
}

/// every printable ASCII character c: if c is a documented prefix character, "c " must be
/// recovered as indent; otherwise a word beginning with c must survive the round trip
fn punctuation_scan(r: &mut Run) -> Result<(), MachineryError> {
    let pc: &[char] = &[' ', '-', '+', '*', '>', '#', '/'];
    r.range("C15/ascii-prefix-character-scan", "for every c in 0x21..=0x7E: prefix characters as indents (\"c \", \"cc\"), all others as first character of the second word; widths 2..=8, both algorithms, LF/CRLF", 94, move |i, cx| {
        let c = (0x21 + i) as u8 as char;
        cx.seq = idx_seq(i);
        for width in 2..=8usize {
            for (an, alg) in algs() {
                for le in [LineEnding::LF, LineEnding::CRLF] {
                  for variant in 0..2 {
                    cx.eval();
                    // variant 1: two words only, so that the word beginning with c opens the *last*
                    // line and no later line can repair a wrongly detected indent
                    let (text, ii, si): (String, String, String) = if pc.contains(&c) {
                        (if variant == 0 { "ab cd ef".to_string() } else { "ab cd".to_string() }, format!("{c} "), format!("{c}{c}"))
                    } else {
                        (if variant == 0 { format!("ab {c}x cd {c}") } else { format!("ab {c}x") }, "> ".to_string(), "  ".to_string())
                    };
                    cx.set_input(&text);
                    let d = || format!("char={:?} width={} algorithm={} ending={:?} initial_indent={:?} subsequent_indent={:?}", c, width, an, le, ii, si);
                    let res = cx.guard(|| {
                        let o = Options::new(width).break_words(false).word_separator(WordSeparator::AsciiSpace).wrap_algorithm(alg).word_splitter(WordSplitter::NoHyphenation).line_ending(le).initial_indent(&ii).subsequent_indent(&si);
                        let filled = fill(&text, &o);
                        let nlines = filled.split(le.as_str()).count();
                        let (t, uo) = unfill(&filled);
                        (filled.clone(), nlines, t, uo.initial_indent.to_string(), uo.subsequent_indent.to_string())
                    });
                    if let Some((filled, nlines, t, uii, usi)) = res {
                        let ok = t == text && uii == ii && (nlines < 2 || usi == si);
                        if nlines >= 2 {
                            cx.nontrivial();
                        }
                        cx.check("C15-roundtrip(prefix-character-scan)", ok, &d, &|| json!({"filled": filled, "unfilled_text": t, "initial_indent": uii, "subsequent_indent": usi}));
                    }
                  }
                }
            }
        }
    })
}

fn run(r: &mut Run) -> Result<(), MachineryError> {
    let t = r.tier;
    roundtrip(r, "C15/roundtrip(all-indent-pairs)", t.pick(3, 4), INDENTS)?;
    roundtrip(r, "C15/roundtrip(longer)", t.pick(4, 6), &["", "> ", "  ", "//"])?;
    structural(r, t.pick(7, 9))?;
    punctuation_scan(r)
}
