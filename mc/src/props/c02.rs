//! C02 — first-fit lines fit the width unless unbreakable (DESIGN.md §5/C02).
use super::*;

pub fn def() -> PropDef {
    PropDef {
        id: "C02",
        builds: BOTH,
        rule: "every well-formed text over each menu up to length N x first-fit configurations (both separators, none/hyphen splitter, break_words on/off, 9 indent pairs covering every order relation between the indent widths and the width, and pairs whose byte lengths are ordered the other way round than their display widths, width range); non-trivial = text with >= 2 paragraphs under indents of different display widths",
        assumptions: BASE_ASSUMPTIONS,
        floor: |t| t.pick(50_000, 150_000),
        run,
    }
}

pub fn gamma() -> Gamma {
    Gamma {
        seps: seps(),
        algs: vec![Alg::FirstFit],
        spls: vec![Spl::None, Spl::Hyphen],
        bws: vec![true, false],
        indents: vec![("", ""), ("", "    "), ("    ", ""), (">", "\u{4f60}"), ("\u{4f60}", ">"), (">>>>>>", "  "), ("\x1b[1m", ""), (">>", "\u{e9}"), (">", "\x1b[1m")],
        crlf: vec![false, true],
    }
}

fn run(r: &mut Run) -> Result<(), MachineryError> {
    let g = gamma();
    let t = r.tier;
    text_space(r, "C02/small", &[L, SP, HY, NL, W, CM, OP, CSI], t.pick(4, 7), &g, M_C02, WidthMode::Display, 4)?;
    text_space(r, "C02/tokens", &[L, LL, LLL, SP, SP2, HY, NL, W, E2], t.pick(4, 6), &g, M_C02, WidthMode::Display, 3)?;
    text_space(r, "C02/rich", &[L, SP, HY, TAB, ZW, NB, OP, CL, EM, E2, NL, D], t.pick(3, 5), &g, M_C02, WidthMode::Display, 3)?;
    text_space(r, "C02/sequences-with-hyphens", &[L, SP, HY, OSH, CSI, NL, D], t.pick(4, 6), &g, M_C02, WidthMode::Display, 3)?;
    char_context_space(r, "C02/all-characters-in-context", M_C02, vec![Alg::FirstFit])?;
    reps::char_pair_space(r, "C02/representative-pairs", M_C02, vec![Alg::FirstFit])?;
    escape_scan_space(r, "C02/escape-grammar-scan", M_C02, vec![Alg::FirstFit])?;
    word_seq_space(r, "C02/word-sequences", M_C02, vec![Alg::FirstFit])?;
    word_seq_long_space(r, "C02/word-sequences-medium", M_C02, vec![Alg::FirstFit])?;
    scale::text_scale(r, "C02/long-paragraphs", "C02")
}
