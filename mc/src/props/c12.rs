//! C12 — splitting and force-breaking words (DESIGN.md §5/C12).
use super::*;
use serde_json::json;
use textwrap::core::{break_words, display_width, Word};
use textwrap::word_splitters::split_words;
use textwrap::WordSplitter;

pub fn def() -> PropDef {
    PropDef {
        id: "C12",
        builds: BOTH,
        rule: "every word over {L,HY,W,CM,SP(inner),D,CSI,OSS,E2,ZW,OP,EM,OSH} up to length N x whitespace in {\"\",\"  \"} x penalty in {\"\",\"-\"} x splitters {none, hyphen, custom(every boundary incl. 0), custom(every other boundary)} x limits 0..=N+1 and MAX; non-trivial = a word that is actually split or actually broken",
        assumptions: BASE_ASSUMPTIONS,
        floor: |t| t.pick(10_000, 30_000),
        run,
    }
}

fn every_boundary(word: &str) -> Vec<usize> {
    word.char_indices().map(|(i, _)| i).collect()
}
fn every_other(word: &str) -> Vec<usize> {
    word.char_indices().map(|(i, _)| i).skip(1).step_by(2).collect()
}

fn pieces_json(p: &[Word]) -> serde_json::Value {
    json!(p.iter().map(|w| json!([w.word, w.whitespace, w.penalty, w.width])).collect::<Vec<_>>())
}

fn check_word(body: &str, nsyms: usize, cx: &mut Cx) {
    let trimmed = body.trim_end_matches(' ');
    let vis = match ref_visible(trimmed) {
        Some(v) => v,
        None => return,
    };
    for ws in ["", "  "] {
        for pen in ["", "-"] {
            let w = Word { word: trimmed, whitespace: ws, penalty: pen, width: vis.width() };
            // ---- splitting
            for (sn, s) in [("none", WordSplitter::NoHyphenation), ("hyphen", WordSplitter::HyphenSplitter), ("custom-every-boundary", WordSplitter::Custom(every_boundary)), ("custom-every-other", WordSplitter::Custom(every_other))] {
                cx.eval();
                let d = || format!("splitter={} whitespace={:?} penalty={:?}", sn, ws, pen);
                let r = cx.guard(|| (s.split_points(w.word), split_words(vec![w], &s).collect::<Vec<Word>>()));
                let (pts, pieces) = match r {
                    Some(x) => x,
                    None => continue,
                };
                let exp_pts = match sn {
                    "none" => vec![],
                    "hyphen" => ref_hyphen_points(w.word),
                    "custom-every-boundary" => every_boundary(w.word),
                    _ => every_other(w.word),
                };
                cx.check("C12-split-points", pts == exp_pts, &d, &|| json!({"split_points": pts, "expected": exp_pts}));
                let mut cuts = vec![];
                let mut acc = 0;
                let mut cat = String::new();
                let mut why = "";
                if pieces.is_empty() {
                    why = "no piece returned";
                }
                for (k, p) in pieces.iter().enumerate() {
                    cat.push_str(p.word);
                    acc += p.word.len();
                    let last = k + 1 == pieces.len();
                    if !last {
                        cuts.push(acc);
                        let exp_pen = if p.word.ends_with('-') { "" } else { "-" };
                        // "does not already end in '-'": judged on the text up to the cut
                        let exp_pen2 = if cat.ends_with('-') { "" } else { "-" };
                        if p.penalty != exp_pen && p.penalty != exp_pen2 {
                            why = "hyphen penalty on a non-final piece must be \"-\" exactly when it does not end in '-'";
                        }
                        if !p.whitespace.is_empty() {
                            why = "whitespace on a non-final piece";
                        }
                    } else if p.whitespace != ws || p.penalty != pen {
                        why = "the last piece must carry the original whitespace and penalty";
                    }
                    if let Some(v) = ref_visible(p.word) {
                        if p.width != v.width() {
                            why = "cached width differs from the display width";
                        }
                    }
                }
                if cat != w.word {
                    why = "pieces do not concatenate to the word";
                } else if cuts != exp_pts {
                    why = "cut positions differ from the split points";
                }
                cx.outcome(&cuts);
                if pieces.len() >= 2 {
                    cx.nontrivial();
                    if cx.want_sample() {
                        cx.sample(&|| json!({"word": w.word, "config": d(), "pieces": pieces_json(&pieces)}));
                    }
                }
                cx.check("C12-split-pieces", why.is_empty(), &d, &|| json!({"why": why, "pieces": pieces_json(&pieces), "expected_cuts": exp_pts}));
            }
            // ---- force-breaking
            for limit in (0..=nsyms + 1).chain([usize::MAX]) {
                cx.eval();
                let d = || format!("limit={} whitespace={:?} penalty={:?}", limit, ws, pen);
                let via_bw = match cx.guard(|| break_words(vec![w], limit)) {
                    Some(x) => x,
                    None => continue,
                };
                if w.width <= limit {
                    cx.check("C12-break-passthrough", via_bw == vec![w], &d, &|| json!({"pieces": pieces_json(&via_bw)}));
                    continue;
                }
                cx.nontrivial();
                if let Some(direct) = cx.guard(|| w.break_apart(limit).collect::<Vec<Word>>()) {
                    cx.check("C12-break_words-eq-break_apart", direct == via_bw, &d, &|| json!({"break_words": pieces_json(&via_bw), "break_apart": pieces_json(&direct)}));
                }
                let mut cat = String::new();
                let mut why = "";
                let mut pos = 0;
                if via_bw.is_empty() {
                    why = "no piece returned";
                }
                for (k, p) in via_bw.iter().enumerate() {
                    let last = k + 1 == via_bw.len();
                    let end = pos + p.word.len();
                    if p.word.is_empty() {
                        why = "empty piece";
                    }
                    match ref_visible(p.word) {
                        Some(pv) => {
                            if p.width != pv.width() {
                                why = "cached width differs from the display width";
                            }
                            if pv.width() > limit && pv.nonzero() > 1 {
                                why = "piece wider than the limit although it has more than one non-zero-width character";
                            }
                        }
                        None => why = "piece is cut inside an escape sequence",
                    }
                    cat.push_str(p.word);
                    if !last {
                        if !p.whitespace.is_empty() || !p.penalty.is_empty() {
                            why = "whitespace/penalty on a non-final piece";
                        }
                        if end <= w.word.len() && vis.inside_seq(end) {
                            why = "cut inside an escape sequence";
                        }
                        match vis.chars.iter().find(|&&(b, _)| b >= end) {
                            Some(&(_, c)) => {
                                if p.width + ref_char_width(c) <= limit {
                                    why = "not maximal: the first character of the following piece would have fitted";
                                }
                                // "fitted" is relative to the bound clause, which permits a piece with a
                                // single non-zero-width character whatever the limit: a piece without any
                                // non-zero-width character can always take one more character
                                if ref_visible(p.word).map_or(false, |pv| pv.nonzero() == 0) {
                                    why = "not maximal: a piece without a non-zero-width character is followed by another piece (its first character would have fitted as the single permitted one)";
                                }
                            }
                            None => why = "a following piece without any visible character",
                        }
                    } else if p.whitespace != ws || p.penalty != pen {
                        why = "the last piece must carry the original whitespace and penalty";
                    }
                    pos = end;
                }
                if cat != w.word {
                    why = "pieces do not concatenate to the word";
                }
                cx.outcome(&via_bw.iter().map(|p| p.word.len()).collect::<Vec<_>>());
                cx.check("C12-break-pieces", why.is_empty(), &d, &|| json!({"why": why, "pieces": pieces_json(&via_bw)}));
            }
        }
    }
    let _ = display_width;
}

fn run(r: &mut Run) -> Result<(), MachineryError> {
    let t = r.tier;
    let alpha = [L, HY, W, CM, SP, D, CSI, OSS, E2, ZW, OP, EM, OSH];
    let n = t.pick(5, 6);
    let space = Space { name: "C12/words".into(), menu: menu(&alpha), max_len: n, desc: format!("words of length <= {} symbols (trailing spaces trimmed) x whitespace x penalty x 4 splitters x limits", n) };
    r.space(space, |seq, cx| {
        let body = build(seq, &alpha);
        cx.set_input(&body);
        check_word(&body, seq.len(), cx);
    })?;
    let t2 = t;
    r.range("C12/all-characters-in-context", &format!("{}; each in the words \"cc\", \"acb\", \"a-c\", \"c-a\" x whitespace x penalty x 4 splitters x limits 0..=4, MAX", scalar_desc(t)), scalar_space(t), move |i, cx| {
        let c = match scalar_at(t2, i) {
            Some(c) if c != '\x1b' => c,
            _ => return,
        };
        cx.seq = idx_seq(i);
        for word in [format!("{c}{c}"), format!("a{c}b"), format!("a-{c}"), format!("{c}-a")] {
            cx.set_input(&word);
            check_word(&word, 3, cx);
        }
    })?;
    r.range("C12/representative-pairs", &format!("{}; each pair (x,y) in the words \"xy\", \"axyb\", \"xy-yx\", \"yxy\" x whitespace x penalty x 4 splitters x limits 0..=4, MAX", reps::pair_desc(t)), reps::pair_space(t), move |i, cx| {
        let (x, y) = reps::pair_at(t2, i);
        cx.seq = idx_seq(i);
        for word in [format!("{x}{y}"), format!("a{x}{y}b"), format!("{x}{y}-{y}{x}"), format!("{y}{x}{y}")] {
            cx.set_input(&word);
            check_word(&word, 3, cx);
        }
    })?;
    let core = [L, HY, W, CM, D, CSI, OSH, CSIT, CSIL];
    let n = t.pick(5, 7);
    let space = Space { name: "C12/words-core-deeper".into(), menu: menu(&core), max_len: n, desc: format!("words of length <= {} over the 8 symbols that drive hyphen splitting and force-breaking (incl. a CSI with a non-letter final byte)", n) };
    r.space(space, |seq, cx| {
        let body = build(seq, &core);
        cx.set_input(&body);
        check_word(&body, seq.len(), cx);
    })
}
