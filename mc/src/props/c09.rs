//! C09 — paragraphs wrap independently; fill = join(wrap); LF/CRLF equivariance (DESIGN.md §5/C09).
use super::*;
use serde_json::json;
use textwrap::fill;

pub fn def() -> PropDef {
    PropDef {
        id: "C09",
        builds: BOTH,
        rule: "every text over {L,SP,HY,NL,W,CR} up to length N x separator x algorithm x splitter x break_words x 4 indent pairs x LF/CRLF x width range, checked at every paragraph boundary; plus every history of <= 3/4 paragraphs through the real per-paragraph transition function; non-trivial = text/history with >= 2 paragraphs",
        assumptions: BASE_ASSUMPTIONS,
        floor: |t| t.pick(100_000, 300_000),
        run,
    }
}

fn gamma() -> Gamma {
    Gamma { seps: seps(), algs: algs_default(), spls: vec![Spl::None, Spl::Hyphen], bws: vec![true, false], indents: vec![("", ""), (">", ""), ("", "> "), ("\u{4f60}", ">"), ("\u{200b}", "\x1b[1m")], crlf: vec![false, true] }
}

fn run(r: &mut Run) -> Result<(), MachineryError> {
    let t = r.tier;
    let alpha = [L, SP, HY, NL, W, CR];
    text_space(r, "C09/texts", &alpha, t.pick(5, 7), &gamma(), M_C09, WidthMode::Display, 5)?;
    pmachine::p_space(r, "C09/paragraph-machine", t.pick(3, 5), false, true)?;
    let gc = Gamma { seps: seps(), algs: vec![Alg::CustomOnePerLine, Alg::CustomNaiveGreedy], spls: vec![Spl::Hyphen], bws: vec![true, false], indents: vec![("", ""), (">", ""), ("", "> ")], crlf: vec![false] };
    text_space(r, "C09/custom-algorithms", &[L, LLL, SP, NL, HY, W], t.pick(4, 6), &gc, M_C09, WidthMode::Display, 0)?;
    scale::text_scale(r, "C09/long-paragraphs", "C09")?;
    // whole words and line breaks: paragraphs of several lines next to each other
    text_space(r, "C09/word-sequences", &[WD1, WD3, WDH, NL], t.pick(5, 7), &Gamma { crlf: vec![false], ..gamma() }, M_C09, WidthMode::Display, 0)?;

    // (d) equivariance under LF -> CRLF for LF texts (including lone CRs)
    let g = Gamma { crlf: vec![false], ..gamma() };
    let bases = g.bases();
    let n = t.pick(5, 8);
    let space = Space {
        name: "C09/lf-crlf-equivariance".into(),
        menu: menu(&alpha),
        max_len: n,
        desc: format!("LF texts of length <= {}: fill(t.replace(LF,CRLF), o.line_ending(CRLF)) == fill(t,o).replace(LF,CRLF); {}; widths 0..=display width+indent+2, MAX", n, g.describe()),
    };
    r.space(space, |seq, cx| {
        let text = build(seq, &alpha);
        cx.set_input(&text);
        if !text.contains('\n') {
            return;
        }
        let t2 = text.replace('\n', "\r\n");
        for base in &bases {
            let hi = width_hi(&text, WidthMode::Display, indent_width(base.ii).max(indent_width(base.si)));
            for w in (0..=hi).chain([usize::MAX]) {
                cx.eval();
                cx.nontrivial();
                let c1 = Cfg { width: w, ..*base };
                let c2 = Cfg { crlf: true, ..c1 };
                let d = || c1.d();
                if let Some((a, b)) = cx.guard(|| (fill(&text, c1.opts()), fill(&t2, c2.opts()))) {
                    cx.outcome(&a);
                    let exp = a.replace('\n', "\r\n");
                    cx.check("C09-lf-crlf-equivariance", b == exp, &d, &|| json!({"fill_lf": a, "fill_crlf": b}));
                    if cx.want_sample() {
                        cx.sample(&|| json!({"text": text, "config": c1.d(), "fill_lf": a, "fill_crlf": b}));
                    }
                }
            }
        }
    })
}
