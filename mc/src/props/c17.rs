//! C17 — fill_inplace only turns spaces into newlines and agrees with wrap (DESIGN.md §5/C17).
use super::*;
use serde_json::json;
use textwrap::{fill_inplace, wrap, Options, WordSeparator, WordSplitter, WrapAlgorithm};

pub fn def() -> PropDef {
    PropDef {
        id: "C17",
        builds: BOTH,
        rule: "every text over {L,SP,NL,E2,W,HY,CR,TAB,CSI,a CSI containing a space} up to length N x widths 0..=display width+2, MAX; non-trivial = at least one space was turned into a newline",
        assumptions: BASE_ASSUMPTIONS,
        floor: |t| t.pick(50_000, 150_000),
        run,
    }
}

fn run(r: &mut Run) -> Result<(), MachineryError> {
    let t = r.tier;
    let alpha = [L, SP, NL, E2, W, HY, CR, TAB, CSI, CSIS];
    let n = t.pick(6, 8);
    let space = Space { name: "C17/texts".into(), menu: menu(&alpha), max_len: n, desc: format!("texts of length <= {} x widths 0..=display width+2, MAX", n) };
    r.space(space, |seq, cx| {
        let text = build(seq, &alpha);
        cx.set_input(&text);
        check_text(&text, cx);
    })?;
    // whole words and line breaks (the symbol space spends its depth on separators)
    let words = [WD1, WD2, WD3, WDH, WD5, NL];
    let nw = t.pick(6, 8);
    let space = Space { name: "C17/word-sequences".into(), menu: menu(&words), max_len: nw, desc: format!("<= {} whole words (each followed by a space) and line breaks x widths 0..=display width+2, MAX", nw) };
    r.space(space, |seq, cx| {
        let text = build(seq, &words);
        cx.set_input(&text);
        check_text(&text, cx);
    })?;
    r.range("C17/all-characters-in-context", &format!("{}; each c in the texts \"cc c\", \"ac cb d\" x widths 0..=display width+2, MAX", scalar_desc(t)), scalar_space(t), move |i, cx| {
        let c = match scalar_at(t, i) {
            Some(c) => c,
            None => return,
        };
        cx.seq = idx_seq(i);
        for text in [format!("{c}{c} {c}"), format!("a{c} {c}b d")] {
            cx.set_input(&text);
            check_text(&text, cx);
        }
    })?;
    r.range("C17/representative-pairs", &format!("{}; each pair (x,y) in the texts \"xy yx\", \"ax yb xy\" x widths 0..=display width+2, MAX", reps::pair_desc(t)), reps::pair_space(t), move |i, cx| {
        let (x, y) = reps::pair_at(t, i);
        cx.seq = idx_seq(i);
        for text in [format!("{x}{y} {y}{x}"), format!("a{x} {y}b {x}{y}")] {
            cx.set_input(&text);
            check_text(&text, cx);
        }
    })?;
    scale::text_scale(r, "C17/long-paragraphs", "C17")
}

fn check_text(text: &str, cx: &mut Cx) {
    {
        let text = text.to_string();

        let hi = width_hi(&text, WidthMode::Display, 0);
        for w in (0..=hi).chain([usize::MAX]) {
            cx.eval();
            let d = || format!("width={}", if w == usize::MAX { "MAX".to_string() } else { w.to_string() });
            let res = cx.guard(|| {
                let mut s = text.clone();
                fill_inplace(&mut s, w);
                let o = Options::new(w).break_words(false).word_separator(WordSeparator::AsciiSpace).wrap_algorithm(WrapAlgorithm::FirstFit).word_splitter(WordSplitter::NoHyphenation);
                let lines: Vec<String> = wrap(&text, o).iter().map(|l| l.to_string()).collect();
                (s, lines)
            });
            let (s, lines) = match res {
                Some(x) => x,
                None => continue,
            };
            cx.outcome(&s);
            let same_len = s.len() == text.len();
            let only_sp_to_nl = same_len && s.bytes().zip(text.bytes()).all(|(a, b)| a == b || (b == b' ' && a == b'\n'));
            cx.check("C17-only-spaces-become-newlines", only_sp_to_nl, &d, &|| json!({"after": s, "before": text}));
            if s != text {
                cx.nontrivial();
                if cx.want_sample() {
                    cx.sample(&|| json!({"text": text, "width": w, "after": s}));
                }
            }
            let got: Vec<String> = s.split('\n').map(|l| l.trim_end_matches(' ').to_string()).collect();
            cx.check("C17-agrees-with-wrap", got == lines, &d, &|| json!({"after": s, "split_and_trimmed": got, "wrap": lines}));
        }
    }
}
