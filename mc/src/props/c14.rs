//! C14 — filling is idempotent (DESIGN.md §5/C14, reading fixed in §6).
use super::*;
use serde_json::json;
use textwrap::fill;

pub fn def() -> PropDef {
    PropDef {
        id: "C14",
        builds: BOTH,
        rule: "every text over {L,SP,HY,W,NL,CM,TAB,NB,ZW,OP,CL,CSI,CR} up to length N x separators x algorithms x none/hyphen x break_words x LF/CRLF x widths 0..=display width+2, MAX, empty indents; fill(fill(t)) == fill(t) under the statement's preconditions (Unicode separator: no reference fragment wider than the width when break_words is on; optimal-fit: additionally no overflowing line in the first result); non-trivial = the first fill has >= 2 lines and the precondition holds",
        assumptions: BASE_ASSUMPTIONS,
        floor: |t| t.pick(100_000, 300_000),
        run,
    }
}

/// one (text, configuration) evaluation; `judge_words` = the text is well-formed, so the
/// statement's preconditions can be evaluated with the reference separators
fn check_idempotent(text: &str, cfg: &Cfg, cx: &mut Cx) {
    cx.eval();
    let o = cfg.opts();
    let d = || format!("{} text={:?}", cfg.d(), text);
    let les = cfg.ending();
    let w = cfg.width;
    let (f1, f2) = match cx.guard(|| {
        let f1 = fill(text, &o);
        let f2 = fill(&f1, &o);
        (f1, f2)
    }) {
        Some(x) => x,
        None => return,
    };
    cx.outcome(&f1);
    // preconditions
    let mut pre = true;
    if cfg.is_uni() && cfg.bw {
        for par in text.split(les) {
            let vis = match ref_visible(par) {
                Some(v) => v,
                None => {
                    pre = false;
                    continue;
                }
            };
            let fb = ref_frag_bounds(par, &vis, cfg);
            let mut all = vec![0];
            all.extend(fb.iter().map(|&(_, hi)| hi));
            all.push(par.len());
            if (0..all.len() - 1).any(|k| ref_visible(par[all[k]..all[k + 1]].trim_end_matches(' ')).map(|v| v.width() > w).unwrap_or(true)) {
                pre = false;
            }
        }
    }
    if !cfg.is_ff() && f1.split(les).any(|l| ref_visible(l).map(|v| v.width() > w).unwrap_or(true)) {
        pre = false;
    }
    if !pre {
        cx.note("C14-precondition-not-met(skipped)");
        return;
    }
    if f1.split(les).count() > text.split(les).count() {
        cx.nontrivial();
        if cx.want_sample() {
            cx.sample(&|| json!({"text": text, "config": cfg.d(), "fill": f1}));
        }
    }
    cx.check("C14-idempotent", f1 == f2, &d, &|| json!({"fill": f1, "fill(fill)": f2}));
}

fn run(r: &mut Run) -> Result<(), MachineryError> {
    let t = r.tier;
    let alpha = [L, SP, HY, W, NL, CM, TAB, NB, ZW, OP, CL, CSI, CR];
    let n = t.pick(4, 6);
    let g = Gamma { seps: seps(), algs: algs_default(), spls: vec![Spl::None, Spl::Hyphen], bws: vec![true, false], indents: vec![("", "")], crlf: vec![false, true] };
    let bases = g.bases();
    let space = Space { name: "C14/texts".into(), menu: menu(&alpha), max_len: n, desc: format!("texts of length <= {}; {}; widths 0..=display width+2, MAX; CRLF configurations on the CRLF form and on the bare-LF form of each text with a line break", n, g.describe()) };
    r.space(space, |seq, cx| {
        let text_lf = build(seq, &alpha);
        cx.set_input(&text_lf);
        let text_crlf = text_lf.replace('\n', "\r\n");
        let hi = width_hi(&text_lf, WidthMode::Display, 0);
        for base in &bases {
            if base.crlf && !(text_lf.contains('\n') || text_lf.contains('\r')) {
                continue;
            }
            for w in (0..=hi).chain([usize::MAX]) {
                let cfg = Cfg { width: w, ..*base };
                if base.crlf {
                    check_idempotent(&text_crlf, &cfg, cx);
                    if text_lf.contains('\n') {
                        check_idempotent(&text_lf, &cfg, cx);
                    }
                } else {
                    check_idempotent(&text_lf, &cfg, cx);
                }
            }
        }
    })?;
    // whole-word sequences: several hyphenated words in one paragraph (the symbol space spends its
    // depth on separators: two hyphenated words and a third word are 9 symbols)
    let words = [WD1, WD2, WD3, WDH, WD5];
    let nw = t.pick(6, 8);
    let gw = Gamma { seps: seps(), algs: algs_default(), spls: vec![Spl::None, Spl::Hyphen], bws: vec![true, false], indents: vec![("", "")], crlf: vec![false] };
    let basesw = gw.bases();
    let space = Space { name: "C14/word-sequences".into(), menu: menu(&words), max_len: nw, desc: format!("<= {} whole words from the menu joined by single spaces; {}; widths 1..=9", nw, gw.describe()) };
    r.space(space, |seq, cx| {
        let mut text = build(seq, &words);
        text.pop();
        cx.set_input(&text);
        for base in &basesw {
            for w in 1..=9usize {
                check_idempotent(&text, &Cfg { width: w, ..*base }, cx);
            }
        }
    })?;
    // texts with stray ESC characters (not well-formed): the statement's "for all texts" with the
    // ASCII separator and first-fit needs no precondition, so these can be judged too
    let raw = [L, LLL, SP, ESC, LBR, LM];
    let n = t.pick(5, 7);
    let g2 = Gamma { seps: vec![Sep::Ascii], algs: vec![Alg::FirstFit], spls: vec![Spl::None, Spl::Hyphen], bws: vec![true, false], indents: vec![("", "")], crlf: vec![false] };
    let bases2 = g2.bases();
    let space = Space { name: "C14/texts-with-stray-escapes".into(), menu: menu(&raw), max_len: n, desc: format!("texts of length <= {} over raw escape pieces; {}; widths 0..=character count+2, MAX", n, g2.describe()) };
    r.space(space, |seq, cx| {
        let text = build(seq, &raw);
        cx.set_input(&text);
        let hi = text.chars().count() + 2;
        for base in &bases2 {
            for w in (0..=hi).chain([usize::MAX]) {
                check_idempotent(&text, &Cfg { width: w, ..*base }, cx);
            }
        }
    })
}
