//! C01 — lines are in-order slices of the input (DESIGN.md §5/C01).
use super::*;

pub fn def() -> PropDef {
    PropDef {
        id: "C01",
        builds: BOTH,
        rule: "every text over each menu up to length N x every configuration (separator, algorithm, splitter incl. a hyphen-inserting custom one, break_words, 5 indent pairs (one of them non-empty with display width 0), LF/CRLF, width range); each (text, configuration) pair is enumerated exactly once; non-trivial = the output has >= 2 lines, or a space was skipped between slices, or a hyphen was inserted",
        assumptions: BASE_ASSUMPTIONS,
        floor: |t| t.pick(100_000, 300_000),
        run,
    }
}

pub fn gamma() -> Gamma {
    Gamma {
        seps: seps(),
        algs: algs_default(),
        spls: vec![Spl::None, Spl::Hyphen, Spl::Cust],
        bws: vec![true, false],
        indents: vec![("", ""), (">", ""), ("", "> "), ("\u{4f60}", ">"), ("\x1b[1m", "\u{200b}")],
        crlf: vec![false, true],
    }
}

fn run(r: &mut Run) -> Result<(), MachineryError> {
    let g = gamma();
    let t = r.tier;
    text_space(r, "C01/small", &[L, SP, HY, NL, W, CM, OP, CSI], t.pick(4, 7), &g, M_C01, WidthMode::Display, 4)?;
    text_space(r, "C01/malformed-escapes", &[L, SP, W, ESC, LBR, RBR, LM, NL], t.pick(4, 6), &g, M_C01, WidthMode::Display, 4)?;
    text_space(r, "C01/tokens", &[L, LL, LLL, SP, SP2, HY, NL, W, E2], t.pick(3, 6), &g, M_C01, WidthMode::Display, 3)?;
    text_space(r, "C01/rich", &[L, SP, HY, TAB, ZW, NB, OP, CL, EM, E2, NL, D], t.pick(3, 5), &g, M_C01, WidthMode::Display, 3)?;
    text_space(r, "C01/sequences-with-hyphens", &[L, SP, HY, OSH, CSI, NL, D], t.pick(4, 6), &g, M_C01, WidthMode::Display, 3)?;
    char_context_space(r, "C01/all-characters-in-context", M_C01, algs_default())?;
    reps::char_pair_space(r, "C01/representative-pairs", M_C01, algs_default())?;
    escape_scan_space(r, "C01/escape-grammar-scan", M_C01, algs_default())?;
    word_seq_space(r, "C01/word-sequences", M_C01, algs_default())?;
    word_seq_long_space(r, "C01/word-sequences-medium", M_C01, algs_default())?;
    scale::text_scale(r, "C01/long-paragraphs", "C01")
}
