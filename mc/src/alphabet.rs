//! Symbol tables (DESIGN.md §3).  A symbol is a string; `L*` symbols stand for
//! "the next unused ASCII letter(s)" so that every slice of a text is unique.

#[derive(Clone, Copy, Debug, PartialEq)]
pub enum Sym {
    /// literal text
    Lit(&'static str, &'static str),
    /// n fresh letters (a, b, c, ... in order of occurrence)
    Letters(&'static str, u8),
    /// a pattern in which every '_' stands for one fresh letter
    Pat(&'static str, &'static str),
}

impl Sym {
    pub fn name(&self) -> &'static str {
        match self {
            Sym::Lit(n, _) => n,
            Sym::Letters(n, _) => n,
            Sym::Pat(n, _) => n,
        }
    }
    pub fn describe(&self) -> String {
        match self {
            Sym::Lit(n, s) => format!("{}={}", n, s.escape_default()),
            Sym::Letters(n, k) => format!("{}=<{} fresh letter(s)>", n, k),
            Sym::Pat(n, p) => format!("{}={} (each _ a fresh letter)", n, p.escape_default()),
        }
    }
}

pub const L: Sym = Sym::Letters("L", 1);
pub const LL: Sym = Sym::Letters("LL", 2);
pub const LLL: Sym = Sym::Letters("LLL", 3);
pub const D: Sym = Sym::Lit("D", "1");
pub const SP: Sym = Sym::Lit("SP", " ");
pub const SP2: Sym = Sym::Lit("SP2", "  ");
pub const HY: Sym = Sym::Lit("HY", "-");
/// paragraph separator; written as "\n", converted to "\r\n" for CRLF configurations
pub const NL: Sym = Sym::Lit("NL", "\n");
pub const CR: Sym = Sym::Lit("CR", "\r");
pub const CRLF: Sym = Sym::Lit("CRLF", "\r\n");
pub const TAB: Sym = Sym::Lit("TAB", "\t");
pub const E2: Sym = Sym::Lit("E2", "\u{e9}");
pub const CM: Sym = Sym::Lit("CM", "\u{301}");
pub const W: Sym = Sym::Lit("W", "\u{4f60}");
pub const EM: Sym = Sym::Lit("EM", "\u{1f600}");
pub const NB: Sym = Sym::Lit("NB", "\u{a0}");
pub const ZW: Sym = Sym::Lit("ZW", "\u{200b}");
pub const WJ: Sym = Sym::Lit("WJ", "\u{2060}");
pub const SHY: Sym = Sym::Lit("SHY", "\u{ad}");
pub const OP: Sym = Sym::Lit("OP", "(");
pub const CL: Sym = Sym::Lit("CL", ")");
pub const DOT: Sym = Sym::Lit("DOT", ".");
pub const CSI: Sym = Sym::Lit("CSI", "\x1b[1m");
pub const CSI2: Sym = Sym::Lit("CSI2", "\x1b[38;5;9m");
/// CSI whose final byte is not a letter (a key code such as Delete)
pub const CSIT: Sym = Sym::Lit("CSIT", "\x1b[3~");
/// a long but ordinary SGR sequence (24-bit foreground and background: 34 parameter bytes)
pub const CSIL: Sym = Sym::Lit("CSIL", "\x1b[38;2;255;255;255;48;2;255;255;255m");
/// SGR with colon sub-parameters
pub const CSIC: Sym = Sym::Lit("CSIC", "\x1b[4:3m");
pub const OSB: Sym = Sym::Lit("OSB", "\x1b]8;;u\x07");
pub const OSS: Sym = Sym::Lit("OSS", "\x1b]8;;u\x1b\\");
/// OSC hyperlink whose URL contains two hyphens between alphanumerics (realistic: "https://my-site.org")
pub const OSH: Sym = Sym::Lit("OSH", "\x1b]8;;1-2-3\x1b\\");
/// OSC whose payload begins with a backslash (a UNC path as window title), BEL-terminated
pub const OSBS: Sym = Sym::Lit("OSBS", "\x1b]\\a\x07");
/// OSC whose payload contains an ESC that is not part of the terminator
pub const OSCE: Sym = Sym::Lit("OSCE", "\x1b]a\x1bb\x07");
/// CSI with an intermediate space (DECSCUSR cursor style)
pub const CSIS: Sym = Sym::Lit("CSIS", "\x1b[2 q");
pub const ESC: Sym = Sym::Lit("ESC", "\x1b");
pub const LBR: Sym = Sym::Lit("LBR", "[");
pub const RBR: Sym = Sym::Lit("RBR", "]");
pub const BSL: Sym = Sym::Lit("BSL", "\\");
pub const BEL: Sym = Sym::Lit("BEL", "\x07");
pub const LM: Sym = Sym::Lit("m", "m");
pub const SEMI: Sym = Sym::Lit("SEMI", ";");
pub const HASH: Sym = Sym::Lit("HASH", "#");
pub const SLASH: Sym = Sym::Lit("SLASH", "/");
pub const GT: Sym = Sym::Lit("GT", ">");
pub const STAR: Sym = Sym::Lit("STAR", "*");

/// whole words, each followed by one space (for the word-sequence spaces)
pub const WD1: Sym = Sym::Pat("WD1", "_ ");
pub const WD2: Sym = Sym::Pat("WD2", "__ ");
pub const WD3: Sym = Sym::Pat("WD3", "___ ");
pub const WD5: Sym = Sym::Pat("WD5", "_____ ");
pub const WDH: Sym = Sym::Pat("WDH", "_-_ ");

pub fn menu(alpha: &[Sym]) -> Vec<String> {
    alpha.iter().map(|s| s.describe()).collect()
}

/// Build the text of a state; fresh letters are numbered in order of occurrence.
pub fn build_into(seq: &[u8], alpha: &[Sym], out: &mut String) {
    out.clear();
    let mut letter = 0u8;
    for &k in seq {
        match alpha[k as usize] {
            Sym::Lit(_, s) => out.push_str(s),
            Sym::Letters(_, n) => {
                for _ in 0..n {
                    out.push((b'a' + letter % 26) as char);
                    letter += 1;
                }
            }
            Sym::Pat(_, p) => {
                for c in p.chars() {
                    if c == '_' {
                        out.push((b'a' + letter % 26) as char);
                        letter += 1;
                    } else {
                        out.push(c);
                    }
                }
            }
        }
    }
}

pub fn build(seq: &[u8], alpha: &[Sym]) -> String {
    let mut s = String::new();
    build_into(seq, alpha, &mut s);
    s
}
