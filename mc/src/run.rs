//! Per-property run driver: tiers, caps, spaces, replay mode, evidence parts.

use crate::explore::*;
use serde_json::{json, Value};
use std::collections::BTreeMap;
use std::time::{Duration, Instant};

#[derive(Clone, Copy, PartialEq, Debug)]
pub enum Tier {
    Quick,
    Thorough,
}

impl Tier {
    pub fn name(&self) -> &'static str {
        match self {
            Tier::Quick => "quick",
            Tier::Thorough => "thorough",
        }
    }
    /// pick by tier
    pub fn pick<T>(&self, q: T, t: T) -> T {
        match self {
            Tier::Quick => q,
            Tier::Thorough => t,
        }
    }
}

/// root of the verification tree (check.sh exports VERIF_HOME; default /verif)
pub fn home() -> String {
    std::env::var("VERIF_HOME").unwrap_or_else(|_| "/verif".to_string())
}

pub const BUILD: &str = if cfg!(feature = "full") { "full" } else { "min" };

pub struct Run<'a> {
    pub property: &'static str,
    pub tier: Tier,
    pub caps: Caps,
    pub shared: &'a Shared,
    pub deadline: Instant,
    pub results: Vec<SpaceResult>,
    /// replay mode: only this (space, seq)
    pub only: Option<(String, Vec<u8>)>,
    pub hang_is_verdict: bool,
}

impl<'a> Run<'a> {
    /// Explore one space (or, in replay mode, execute the single replayed state).
    pub fn space<F>(&mut self, space: Space, f: F) -> Result<(), MachineryError>
    where
        F: Fn(&[u8], &mut Cx) + Sync,
    {
        if let Some((name, seq)) = &self.only {
            if *name != space.name {
                return Ok(());
            }
            let one = Space { name: space.name.clone(), menu: space.menu.clone(), max_len: 0, desc: space.desc.clone() };
            let seq = seq.clone();
            let r = explore(&one, &self.caps, self.shared, self.deadline, &|_| {}, |_s, cx| {
                cx.seq = seq.clone();
                f(&seq, cx)
            })?;
            self.results.push(r);
            return Ok(());
        }
        if Instant::now() > self.deadline {
            // a previous space consumed the budget: record the space as not explored
            self.results.push(SpaceResult {
                name: space.name.clone(),
                menu: space.menu.clone(),
                desc: space.desc.clone(),
                max_len: space.max_len,
                completed_len: None,
                states: 0,
                closed_form: 0,
                counters: Counters::default(),
                violations: vec![],
                samples: vec![],
                cap_hit: Some("wall cap reached before this space was started; nothing of it was explored".into()),
                wall_s: 0.0,
                determinism_states: 0,
                known_hits: vec![],
            });
            return Ok(());
        }
        let property = self.property;
        let hang_is_verdict = self.hang_is_verdict;
        let on_hang = move |desc: &str| {
            // a single state did not finish within the hang cap
            let path = format!("{}/replays/{}-hang-{:016x}.json", home(), property, fnv64(desc.as_bytes()));
            let _ = std::fs::create_dir_all(format!("{}/replays", home()));
            let _ = std::fs::write(&path, serde_json::to_string_pretty(&json!({"property": "C04", "sub_check": "hang", "state": desc, "build": BUILD})).unwrap());
            if hang_is_verdict {
                println!("VIOLATION property={} replay={}", property, path);
                std::process::exit(1);
            } else {
                eprintln!("MACHINERY: subject code did not return within the hang cap in state {} (a hang is a C04 matter; this check cannot continue)", desc);
                std::process::exit(2);
            }
        };
        let r = explore(&space, &self.caps, self.shared, self.deadline, &on_hang, f)?;
        eprintln!(
            "  [{}] space {:<28} N={} states={} evals={} nontrivial={} fails={} wall={:.1}s{}",
            BUILD,
            r.name,
            r.max_len,
            r.states,
            r.counters.evals,
            r.counters.nontrivial,
            r.counters.subs.values().map(|v| v.1).sum::<u64>(),
            r.wall_s,
            r.cap_hit.as_ref().map(|c| format!(" CAP: {}", c)).unwrap_or_default()
        );
        self.results.push(r);
        Ok(())
    }

    pub fn range<F>(&mut self, name: &str, desc: &str, n: u64, f: F) -> Result<(), MachineryError>
    where
        F: Fn(u64, &mut Cx) + Sync,
    {
        if let Some((oname, seq)) = &self.only {
            if oname != name {
                return Ok(());
            }
            // replay: seq encodes the index in base 256, big endian
            let mut idx = 0u64;
            for b in seq {
                idx = idx * 256 + *b as u64;
            }
            let r = explore_range(name, desc, 1, &self.caps, self.shared, |_, cx| f(idx, cx));
            self.results.push(r?);
            return Ok(());
        }
        let r = explore_range(name, desc, n, &self.caps, self.shared, f)?;
        eprintln!("  [{}] space {:<28} cases={} evals={} fails={} wall={:.1}s", BUILD, r.name, r.states, r.counters.evals, r.counters.subs.values().map(|v| v.1).sum::<u64>(), r.wall_s);
        self.results.push(r);
        Ok(())
    }
}

pub fn idx_seq(i: u64) -> Vec<u8> {
    i.to_be_bytes().to_vec()
}

/// Everything one process (one build) contributes to the evidence file.
pub fn part_json(property: &str, tier: Tier, results: &[SpaceResult], rule: &str, assumptions: &[&str], wall_s: f64, violations: u64, known: &[String], distinct_outcomes: u64) -> Value {
    let mut subs: BTreeMap<String, (u64, u64)> = BTreeMap::new();
    let mut notes: BTreeMap<String, u64> = BTreeMap::new();
    let (mut states, mut evals, mut nontrivial, mut traces, mut panics) = (0u64, 0u64, 0u64, 0u64, 0u64);
    let mut samples: Vec<Value> = vec![];
    let mut spaces: Vec<Value> = vec![];
    let mut exhaustive = true;
    let mut caps_hit: Vec<String> = vec![];
    for r in results {
        states += r.states;
        evals += r.counters.evals;
        nontrivial += r.counters.nontrivial;
        traces += r.counters.traces;
        panics += r.counters.panics;
        for (k, v) in &r.counters.subs {
            let e = subs.entry(k.to_string()).or_insert((0, 0));
            e.0 += v.0;
            e.1 += v.1;
        }
        for (k, v) in &r.counters.notes {
            *notes.entry(k.to_string()).or_insert(0) += v;
        }
        for s in r.samples.iter().take(3) {
            if samples.len() < 12 {
                samples.push(json!({"space": r.name, "case": s}));
            }
        }
        if !r.exhaustive() {
            exhaustive = false;
        }
        if let Some(c) = &r.cap_hit {
            caps_hit.push(format!("{}: {}", r.name, c));
        }
        spaces.push(json!({
            "name": r.name,
            "build": BUILD,
            "description": r.desc,
            "menu": r.menu,
            "max_len": r.max_len,
            "completed_len": r.completed_len,
            "states": r.states,
            "closed_form_states": r.closed_form,
            "evaluations": r.counters.evals,
            "nontrivial": r.counters.nontrivial,
            "exhaustive": r.exhaustive(),
            "determinism_selfcheck_states": r.determinism_states,
            "wall_s": r.wall_s,
        }));
    }
    json!({
        "property_id": property,
        "tier": tier.name(),
        "build": BUILD,
        "states": states,
        "transitions": states.saturating_sub(results.len() as u64),
        "evaluations": evals,
        "distinct_nontrivial": nontrivial,
        "traces_validated_against_impl": traces,
        "panics_observed": panics,
        "sub_checks": subs.iter().map(|(k, v)| (k.clone(), json!({"evaluated": v.0, "failed": v.1}))).collect::<serde_json::Map<_, _>>(),
        "notes": notes,
        "samples": samples,
        "spaces": spaces,
        "exhaustive": exhaustive,
        "caps_hit": caps_hit,
        "rule": rule,
        "assumptions": assumptions,
        "wall_s": wall_s,
        "violations": violations,
        "known_findings_hit": known,
        "distinct_outcomes_lower_bound": distinct_outcomes,
    })
}

pub fn default_caps(tier: Tier) -> Caps {
    let threads = std::env::var("VERIF_THREADS").ok().and_then(|s| s.parse().ok()).unwrap_or_else(|| std::thread::available_parallelism().map(|n| n.get()).unwrap_or(4));
    let wall = std::env::var("VERIF_WALL_S").ok().and_then(|s| s.parse().ok()).unwrap_or(match tier {
        Tier::Quick => 60,
        Tier::Thorough => 3600,
    });
    Caps { wall: Duration::from_secs(wall), rss_mb: 8192, hang: Duration::from_secs(20), threads }
}
