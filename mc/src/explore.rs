//! The explorer: level-by-level exhaustive enumeration of all sequences over a
//! finite menu (symbols, fragments or paragraphs), executed on 16 workers with
//! deterministic merging, closed-form completeness check, determinism
//! self-check, wall/RSS caps and a hang watchdog.
//!
//! A *state* is a sequence `s_1..s_k` of menu indices (k <= N).  The transition
//! relation is "append one menu entry"; the initial state is the empty
//! sequence.  Every state is visited exactly once, at its own level, so the
//! first violation found is a shortest one and counts are independent of
//! thread timing.

use serde_json::{json, Value};
use std::cell::Cell;
use std::collections::BTreeMap;
use std::hash::{Hash, Hasher};
use std::panic::{catch_unwind, AssertUnwindSafe};
use std::sync::atomic::{AtomicBool, AtomicU64, AtomicUsize, Ordering};
use std::sync::Mutex;
use std::time::{Duration, Instant};

thread_local! {
    static IN_GUARD: Cell<bool> = const { Cell::new(false) };
    static LAST_PANIC: std::cell::RefCell<String> = const { std::cell::RefCell::new(String::new()) };
}

/// Install a panic hook that is silent for panics raised inside `Cx::guard`
/// (subject code under test) and loud for everything else (harness bugs).
pub fn install_panic_hook() {
    let default = std::panic::take_hook();
    std::panic::set_hook(Box::new(move |info| {
        if !IN_GUARD.with(|g| g.get()) {
            default(info);
        } else {
            // remember message and location of the subject's panic for the violation report
            let msg = info.payload().downcast_ref::<&str>().map(|s| s.to_string()).or_else(|| info.payload().downcast_ref::<String>().cloned()).unwrap_or_default();
            let loc = info.location().map(|l| format!("{}:{}", l.file(), l.line())).unwrap_or_default();
            LAST_PANIC.with(|p| *p.borrow_mut() = format!("{} at {}", msg, loc));
        }
    }));
}

/// Run subject code; `None` if it panicked.
pub fn guard<T>(f: impl FnOnce() -> T) -> Option<T> {
    let prev = IN_GUARD.with(|g| g.replace(true));
    let r = catch_unwind(AssertUnwindSafe(f));
    IN_GUARD.with(|g| g.set(prev));
    r.ok()
}

pub fn fnv64(bytes: &[u8]) -> u64 {
    let mut h: u64 = 0xcbf29ce484222325;
    for b in bytes {
        h ^= *b as u64;
        h = h.wrapping_mul(0x100000001b3);
    }
    h
}

#[derive(Clone, Debug)]
pub struct Violation {
    pub sub: &'static str,
    pub space: String,
    pub seq: Vec<u8>,
    pub input: String,
    pub config: String,
    pub detail: Value,
}

impl Violation {
    pub fn key(&self, property: &str) -> String {
        format!("{}|{}|{}|{}", property, self.sub, self.input, self.config)
    }
    pub fn to_json(&self, property: &str, build: &str) -> Value {
        json!({
            "property": property,
            "sub_check": self.sub,
            "build": build,
            "space": self.space,
            "seq": self.seq,
            "input": self.input,
            "config": self.config,
            "detail": self.detail,
        })
    }
}

#[derive(Clone, Default, Debug, PartialEq)]
pub struct Counters {
    /// (state, configuration) evaluations of subject code
    pub evals: u64,
    /// evaluations that are non-trivial by the property's rule (each evaluation
    /// is a distinct (state, configuration) pair by construction)
    pub nontrivial: u64,
    /// comparisons of a real execution with the reference model / predicate
    pub traces: u64,
    /// subject panics observed (a verdict only for C04 / C20)
    pub panics: u64,
    /// rolling hash of the outcomes in visiting order (determinism check)
    pub chain: u64,
    /// per sub-check: (evaluated, failed)
    pub subs: BTreeMap<&'static str, (u64, u64)>,
    /// free-form named counters (non-vacuity classes)
    pub notes: BTreeMap<&'static str, u64>,
}

impl Counters {
    pub fn merge(&mut self, o: &Counters) {
        self.evals += o.evals;
        self.nontrivial += o.nontrivial;
        self.traces += o.traces;
        self.panics += o.panics;
        self.chain = self.chain.wrapping_mul(0x9E3779B97F4A7C15).wrapping_add(o.chain);
        for (k, v) in &o.subs {
            let e = self.subs.entry(k).or_insert((0, 0));
            e.0 += v.0;
            e.1 += v.1;
        }
        for (k, v) in &o.notes {
            *self.notes.entry(k).or_insert(0) += v;
        }
    }
}

const KEEP_PER_SUB: usize = 4;
const KEEP_SAMPLES: usize = 2;

/// Per-ticket context handed to the property code.
pub struct Cx<'a> {
    pub c: Counters,
    pub violations: Vec<Violation>,
    pub samples: Vec<Value>,
    pub known_hits: Vec<String>,
    pub space: &'a str,
    pub seq: Vec<u8>,
    pub input: String,
    shared: &'a Shared,
}

impl<'a> Cx<'a> {
    fn new(space: &'a str, shared: &'a Shared) -> Self {
        Cx { c: Counters::default(), violations: vec![], samples: vec![], known_hits: vec![], space, seq: vec![], input: String::new(), shared }
    }
    /// Declare the human-readable input of the current state (for reports).
    pub fn set_input(&mut self, s: &str) {
        self.input.clear();
        self.input.push_str(s);
    }
    #[inline]
    pub fn eval(&mut self) {
        self.c.evals += 1;
    }
    #[inline]
    pub fn nontrivial(&mut self) {
        self.c.nontrivial += 1;
    }
    #[inline]
    pub fn note(&mut self, name: &'static str) {
        *self.c.notes.entry(name).or_insert(0) += 1;
    }
    #[inline]
    pub fn outcome<H: Hash + ?Sized>(&mut self, h: &H) {
        let mut hasher = Fnv(0xcbf29ce484222325);
        h.hash(&mut hasher);
        let v = hasher.0;
        self.c.chain = self.c.chain.wrapping_mul(0x100000001b3) ^ v;
        self.shared.mark(v);
    }
    /// Record one oracle evaluation of sub-check `sub`; `ok == false` is a violation.
    #[inline]
    pub fn check(&mut self, sub: &'static str, ok: bool, config: &dyn Fn() -> String, detail: &dyn Fn() -> Value) {
        self.c.traces += 1;
        self.c.subs.entry(sub).or_insert((0, 0)).0 += 1;
        if !ok {
            let cfg = config();
            let key = format!("{}|{}|{}", sub, self.input, cfg);
            if self.shared.known.contains(&key) {
                // a recorded known finding: reported as such, not a verdict
                *self.c.notes.entry("known-finding-hits").or_insert(0) += 1;
                if self.known_hits.len() < 16 && !self.known_hits.contains(&key) {
                    self.known_hits.push(key);
                }
                return;
            }
            self.c.subs.entry(sub).or_insert((0, 0)).1 += 1;
            self.push_violation(sub, key, cfg, detail);
        }
    }
    pub fn fail(&mut self, sub: &'static str, config: &dyn Fn() -> String, detail: &dyn Fn() -> Value) {
        self.check(sub, false, config, detail)
    }
    pub fn pass(&mut self, sub: &'static str) {
        self.c.traces += 1;
        self.c.subs.entry(sub).or_insert((0, 0)).0 += 1;
    }
    fn push_violation(&mut self, sub: &'static str, key: String, cfg: String, detail: &dyn Fn() -> Value) {
        if let Some(f) = &self.shared.only_key {
            // replay mode: keep only the replayed case
            if *f != key {
                let e = self.c.subs.entry(sub).or_insert((0, 0));
                e.1 -= 1;
                return;
            }
        }
        let kept = self.violations.iter().filter(|v| v.sub == sub).count();
        if kept < KEEP_PER_SUB {
            self.violations.push(Violation { sub, space: self.space.to_string(), seq: self.seq.clone(), input: self.input.clone(), config: cfg, detail: detail() });
        }
    }
    /// Run subject code under catch_unwind.  A panic returns None and is itself reported as a
    /// violation of the property under check (sub-check "subject-panicked"): every statement
    /// describes what the call returns, which presupposes that it returns.
    pub fn guard<T>(&mut self, f: impl FnOnce() -> T) -> Option<T> {
        let r = guard(f);
        if r.is_none() {
            self.c.panics += 1;
            let msg = LAST_PANIC.with(|p| p.borrow().clone());
            self.check("subject-panicked", false, &|| "(some configuration of this state; the first panic is recorded)".to_string(), &|| serde_json::json!({"panic": msg}));
        }
        r
    }
    /// Like `guard`, for callers that report the panic themselves with its exact configuration.
    pub fn guard_quiet<T>(&mut self, f: impl FnOnce() -> T) -> Option<T> {
        let r = guard(f);
        if r.is_none() {
            self.c.panics += 1;
        }
        r
    }
    pub fn last_panic(&self) -> String {
        LAST_PANIC.with(|p| p.borrow().clone())
    }
    pub fn sample(&mut self, v: &dyn Fn() -> Value) {
        if self.samples.len() < KEEP_SAMPLES {
            self.samples.push(v());
        }
    }
    pub fn want_sample(&self) -> bool {
        self.samples.len() < KEEP_SAMPLES
    }
}

struct Fnv(u64);
impl Hasher for Fnv {
    fn finish(&self) -> u64 {
        self.0
    }
    fn write(&mut self, bytes: &[u8]) {
        for b in bytes {
            self.0 ^= *b as u64;
            self.0 = self.0.wrapping_mul(0x100000001b3);
        }
    }
}

const BITMAP_WORDS: usize = 1 << 20; // 2^26 bits

pub struct Shared {
    bitmap: Vec<AtomicU64>,
    pub abort: AtomicBool,
    pub only_key: Option<String>,
    /// keys "sub|input|config" of recorded known findings of the property under check
    pub known: std::collections::HashSet<String>,
    /// per worker: (progress counter, current state description)
    slots: Vec<(AtomicU64, Mutex<String>)>,
}

impl Shared {
    pub fn new(threads: usize, only_key: Option<String>, known: std::collections::HashSet<String>) -> Self {
        Shared {
            known,
            bitmap: (0..BITMAP_WORDS).map(|_| AtomicU64::new(0)).collect(),
            abort: AtomicBool::new(false),
            only_key,
            slots: (0..threads.max(1)).map(|_| (AtomicU64::new(0), Mutex::new(String::new()))).collect(),
        }
    }
    #[inline]
    fn mark(&self, h: u64) {
        let bit = (h ^ (h >> 29)) as usize & (BITMAP_WORDS * 64 - 1);
        let w = &self.bitmap[bit >> 6];
        let m = 1u64 << (bit & 63);
        if w.load(Ordering::Relaxed) & m == 0 {
            w.fetch_or(m, Ordering::Relaxed);
        }
    }
    pub fn distinct_outcomes(&self) -> u64 {
        self.bitmap.iter().map(|w| w.load(Ordering::Relaxed).count_ones() as u64).sum()
    }
}

#[derive(Clone, Debug)]
pub struct Caps {
    pub wall: Duration,
    pub rss_mb: u64,
    pub hang: Duration,
    pub threads: usize,
}

pub struct Space {
    pub name: String,
    /// printable menu (symbols / fragments / paragraphs)
    pub menu: Vec<String>,
    pub max_len: usize,
    pub desc: String,
}

pub struct SpaceResult {
    pub name: String,
    pub menu: Vec<String>,
    pub desc: String,
    pub max_len: usize,
    /// deepest level enumerated completely
    pub completed_len: Option<usize>,
    pub states: u64,
    pub closed_form: u64,
    pub counters: Counters,
    pub violations: Vec<Violation>,
    pub samples: Vec<Value>,
    pub cap_hit: Option<String>,
    pub wall_s: f64,
    pub determinism_states: u64,
    pub known_hits: Vec<String>,
}

impl SpaceResult {
    pub fn exhaustive(&self) -> bool {
        self.cap_hit.is_none() && self.completed_len == Some(self.max_len)
    }
}

pub struct MachineryError(pub String);

fn rss_mb() -> u64 {
    std::fs::read_to_string("/proc/self/statm")
        .ok()
        .and_then(|s| s.split_whitespace().nth(1).and_then(|x| x.parse::<u64>().ok()))
        .map(|pages| pages * 4096 / (1 << 20))
        .unwrap_or(0)
}

fn pow(b: usize, e: usize) -> u64 {
    (b as u64).pow(e as u32)
}

/// What the watchdog does when a single state does not finish within `caps.hang`.
pub type HangHandler = dyn Fn(&str) + Sync;

/// Enumerate every sequence of length 0..=space.max_len over a menu of
/// `space.menu.len()` entries and call `f` on each, in parallel.
pub fn explore<F>(space: &Space, caps: &Caps, shared: &Shared, deadline: Instant, on_hang: &HangHandler, f: F) -> Result<SpaceResult, MachineryError>
where
    F: Fn(&[u8], &mut Cx) + Sync,
{
    let t0 = Instant::now();
    let m = space.menu.len();
    assert!(m >= 1 && m < 256);
    let mut res = SpaceResult {
        name: space.name.clone(),
        menu: space.menu.clone(),
        desc: space.desc.clone(),
        max_len: space.max_len,
        completed_len: None,
        states: 0,
        closed_form: (0..=space.max_len).map(|k| pow(m, k)).sum(),
        counters: Counters::default(),
        violations: vec![],
        samples: vec![],
        cap_hit: None,
        wall_s: 0.0,
        determinism_states: 0,
        known_hits: vec![],
    };

    // --- determinism self-check: the first 64 states in level order, twice.
    {
        let mut seqs: Vec<Vec<u8>> = vec![vec![]];
        let mut frontier: Vec<Vec<u8>> = vec![vec![]];
        'outer: for _ in 0..space.max_len {
            let mut next = vec![];
            for s in &frontier {
                for k in 0..m {
                    let mut t = s.clone();
                    t.push(k as u8);
                    seqs.push(t.clone());
                    next.push(t);
                    if seqs.len() >= 64 {
                        break 'outer;
                    }
                }
            }
            frontier = next;
        }
        let probe = Shared::new(1, shared.only_key.clone(), shared.known.clone());
        let run = |seqs: &Vec<Vec<u8>>| -> (Counters, usize) {
            let mut cx = Cx::new(&space.name, &probe);
            for s in seqs {
                cx.seq.clear();
                cx.seq.extend_from_slice(s);
                f(s, &mut cx);
            }
            (cx.c, cx.violations.len())
        };
        let a = run(&seqs);
        let b = run(&seqs);
        if a != b {
            return Err(MachineryError(format!("determinism self-check failed in space {}: {:?} vs {:?}", space.name, a, b)));
        }
        res.determinism_states = seqs.len() as u64;
    }

    // --- watchdog
    let done = AtomicBool::new(false);
    let result = std::thread::scope(|scope| -> Result<(), MachineryError> {
        let wd = scope.spawn(|| {
            let mut last: Vec<(u64, Instant)> = shared.slots.iter().map(|s| (s.0.load(Ordering::Relaxed), Instant::now())).collect();
            while !done.load(Ordering::Relaxed) {
                std::thread::sleep(Duration::from_millis(200));
                for (i, s) in shared.slots.iter().enumerate() {
                    let v = s.0.load(Ordering::Relaxed);
                    if v != last[i].0 {
                        last[i] = (v, Instant::now());
                    } else if v % 2 == 1 && last[i].1.elapsed() > caps.hang {
                        // odd = inside a state
                        let desc = s.1.lock().map(|g| g.clone()).unwrap_or_default();
                        on_hang(&desc);
                        last[i].1 = Instant::now();
                    }
                }
                if Instant::now() > deadline && !shared.abort.load(Ordering::Relaxed) {
                    shared.abort.store(true, Ordering::Relaxed);
                }
                if caps.rss_mb > 0 && rss_mb() > caps.rss_mb {
                    shared.abort.store(true, Ordering::Relaxed);
                }
            }
        });

        for level in 0..=space.max_len {
            // prefix length for tickets at this level
            let mut p = 0;
            while p < level && pow(m, p) < 2048 {
                p += 1;
            }
            let ntickets = pow(m, p) as usize;
            let next = AtomicUsize::new(0);
            let results: Mutex<Vec<Option<(Counters, Vec<Violation>, Vec<Value>, u64, Vec<String>)>>> = Mutex::new((0..ntickets).map(|_| None).collect());
            let nthreads = caps.threads.min(ntickets).max(1);
            std::thread::scope(|s2| {
                for tid in 0..nthreads {
                    let next = &next;
                    let results = &results;
                    let f = &f;
                    s2.spawn(move || {
                        let slot = &shared.slots[tid];
                        loop {
                            if shared.abort.load(Ordering::Relaxed) {
                                break;
                            }
                            let t = next.fetch_add(1, Ordering::Relaxed);
                            if t >= ntickets {
                                break;
                            }
                            let mut cx = Cx::new(&space.name, shared);
                            // decode prefix
                            let mut seq = vec![0u8; level];
                            let mut x = t;
                            for i in (0..p).rev() {
                                seq[i] = (x % m) as u8;
                                x /= m;
                            }
                            // odometer over the suffix
                            let mut states = 0u64;
                            let mut aborted = false;
                            loop {
                                if states % 256 == 0 && shared.abort.load(Ordering::Relaxed) {
                                    aborted = true;
                                    break;
                                }
                                cx.seq.clear();
                                cx.seq.extend_from_slice(&seq);
                                if let Ok(mut g) = slot.1.lock() {
                                    g.clear();
                                    use std::fmt::Write;
                                    let _ = write!(g, "space={} seq={:?}", space.name, seq);
                                }
                                slot.0.fetch_add(1, Ordering::Relaxed); // odd: in state
                                f(&seq, &mut cx);
                                slot.0.fetch_add(1, Ordering::Relaxed); // even: between states
                                states += 1;
                                // increment suffix positions p..level (odometer)
                                let mut carried_out = true;
                                let mut i = level;
                                while i > p {
                                    i -= 1;
                                    if (seq[i] as usize) + 1 < m {
                                        seq[i] += 1;
                                        for j in i + 1..level {
                                            seq[j] = 0;
                                        }
                                        carried_out = false;
                                        break;
                                    }
                                }
                                if carried_out {
                                    break; // suffix exhausted
                                }
                            }
                            if aborted {
                                break;
                            }
                            results.lock().unwrap()[t] = Some((cx.c, cx.violations, cx.samples, states, cx.known_hits));
                        }
                    });
                }
            });
            let results = results.into_inner().unwrap();
            let complete = results.iter().all(|r| r.is_some());
            if !complete {
                res.cap_hit = Some(format!(
                    "cap fired during level {} (wall cap {:?}, rss cap {} MB); levels 0..{} are complete, partial results of level {} are discarded",
                    level,
                    caps.wall,
                    caps.rss_mb,
                    level as i64 - 1,
                    level
                ));
                break;
            }
            let mut level_states = 0;
            for r in results.into_iter().flatten() {
                res.counters.merge(&r.0);
                for v in r.1 {
                    if res.violations.iter().filter(|x| x.sub == v.sub).count() < KEEP_PER_SUB {
                        res.violations.push(v);
                    }
                }
                for s in r.2 {
                    if res.samples.len() < 6 {
                        res.samples.push(s);
                    }
                }
                level_states += r.3;
                for k in r.4 {
                    if res.known_hits.len() < 64 && !res.known_hits.contains(&k) {
                        res.known_hits.push(k);
                    }
                }
            }
            if level_states != pow(m, level) {
                done.store(true, Ordering::Relaxed);
                return Err(MachineryError(format!("completeness self-check failed in space {} level {}: visited {} states, closed form {}", space.name, level, level_states, pow(m, level))));
            }
            res.states += level_states;
            res.completed_len = Some(level);
        }
        done.store(true, Ordering::Relaxed);
        let _ = wd.join();
        Ok(())
    });
    done.store(true, Ordering::Relaxed);
    result?;
    res.wall_s = t0.elapsed().as_secs_f64();
    Ok(res)
}

/// Run a flat list of `n` independent cases (used for non-trie spaces such as
/// the scan of all Unicode scalar values).  Case i is handed to `f` as index.
pub fn explore_range<F>(name: &str, desc: &str, n: u64, caps: &Caps, shared: &Shared, f: F) -> Result<SpaceResult, MachineryError>
where
    F: Fn(u64, &mut Cx) + Sync,
{
    let t0 = Instant::now();
    let chunk = 4096u64;
    let ntickets = ((n + chunk - 1) / chunk) as usize;
    let next = AtomicUsize::new(0);
    let results: Mutex<Vec<Option<(Counters, Vec<Violation>, Vec<Value>, u64, Vec<String>)>>> = Mutex::new((0..ntickets).map(|_| None).collect());
    std::thread::scope(|s2| {
        for _ in 0..caps.threads.min(ntickets).max(1) {
            let next = &next;
            let results = &results;
            let f = &f;
            s2.spawn(move || loop {
                let t = next.fetch_add(1, Ordering::Relaxed);
                if t >= ntickets {
                    break;
                }
                let mut cx = Cx::new(name, shared);
                let lo = t as u64 * chunk;
                let hi = (lo + chunk).min(n);
                for i in lo..hi {
                    f(i, &mut cx);
                }
                results.lock().unwrap()[t] = Some((cx.c, cx.violations, cx.samples, hi - lo, cx.known_hits));
            });
        }
    });
    let mut res = SpaceResult {
        name: name.to_string(),
        menu: vec![],
        desc: desc.to_string(),
        max_len: 1,
        completed_len: Some(1),
        states: 0,
        closed_form: n,
        counters: Counters::default(),
        violations: vec![],
        samples: vec![],
        cap_hit: None,
        wall_s: 0.0,
        determinism_states: 0,
        known_hits: vec![],
    };
    for r in results.into_inner().unwrap().into_iter().flatten() {
        res.counters.merge(&r.0);
        for v in r.1 {
            if res.violations.iter().filter(|x| x.sub == v.sub).count() < KEEP_PER_SUB {
                res.violations.push(v);
            }
        }
        for s in r.2 {
            if res.samples.len() < 6 {
                res.samples.push(s);
            }
        }
        res.states += r.3;
        for k in r.4 {
            if res.known_hits.len() < 64 && !res.known_hits.contains(&k) {
                res.known_hits.push(k);
            }
        }
    }
    if res.states != n {
        return Err(MachineryError(format!("completeness self-check failed in range space {}: {} of {}", name, res.states, n)));
    }
    res.wall_s = t0.elapsed().as_secs_f64();
    Ok(res)
}
