//! Configuration records for text-level exploration.

use textwrap::{LineEnding, Options, WordSeparator, WordSplitter, WrapAlgorithm};

#[derive(Clone, Copy, Debug, PartialEq)]
pub enum Sep {
    Ascii,
    #[cfg(feature = "full")]
    Uni,
}

#[derive(Clone, Copy, Debug, PartialEq)]
pub enum Alg {
    FirstFit,
    /// optimal-fit with penalties (nline, overflow, fraction, short, hyphen)
    #[cfg(feature = "full")]
    Opt([usize; 5]),
    /// WrapAlgorithm::Custom: every word on a line of its own
    CustomOnePerLine,
    /// WrapAlgorithm::Custom: a naive greedy algorithm without the "never flush an empty line"
    /// guard (an over-wide first word leaves an empty first line)
    CustomNaiveGreedy,
}

fn custom_one_per_line<'a, 'b>(words: &'b [textwrap::core::Word<'a>], _line_widths: &'b [usize]) -> Vec<&'b [textwrap::core::Word<'a>]> {
    if words.is_empty() {
        return vec![words];
    }
    (0..words.len()).map(|i| &words[i..i + 1]).collect()
}

fn custom_naive_greedy<'a, 'b>(words: &'b [textwrap::core::Word<'a>], line_widths: &'b [usize]) -> Vec<&'b [textwrap::core::Word<'a>]> {
    let mut lines = vec![];
    let mut start = 0;
    let mut width = 0usize;
    for (i, w) in words.iter().enumerate() {
        let target = *line_widths.get(lines.len()).or(line_widths.last()).unwrap_or(&0);
        if width.saturating_add(w.width).saturating_add(w.penalty.len()) > target {
            lines.push(&words[start..i]); // may be empty: that is the point
            start = i;
            width = 0;
        }
        width = width.saturating_add(w.width).saturating_add(w.whitespace.len());
    }
    lines.push(&words[start..]);
    lines
}

#[derive(Clone, Copy, Debug, PartialEq)]
pub enum Spl {
    None,
    Hyphen,
    /// custom splitter: split inside runs of ASCII letters after every second letter (inserts a hyphen)
    Cust,
}

pub fn custom_split(word: &str) -> Vec<usize> {
    // split inside runs of ASCII letters, before every letter that is preceded by an even,
    // non-zero number of letters of its run: "abcde" -> "ab-", "cd-", "e".  The pieces are wider
    // than one column, so that break_words has something to break after the splitter ran.
    let mut run = 0usize;
    let mut out = vec![];
    for (i, c) in word.char_indices() {
        if c.is_ascii_alphabetic() {
            if run > 0 && run % 2 == 0 {
                out.push(i);
            }
            run += 1;
        } else {
            run = 0;
        }
    }
    out
}

/// Is byte offset `e` of `text` a split point of `custom_split`?  (Decidable locally: runs of
/// letters are never interrupted by a word boundary of either separator.)
pub fn is_custom_split_point(text: &str, e: usize) -> bool {
    if e == 0 || e >= text.len() || !text.is_char_boundary(e) {
        return false;
    }
    if !text[e..].starts_with(|c: char| c.is_ascii_alphabetic()) {
        return false;
    }
    let run = text[..e].chars().rev().take_while(|c| c.is_ascii_alphabetic()).count();
    run > 0 && run % 2 == 0
}

/// How the options reach `wrap` / `fill`: by reference (`From<&Options>`), by value, or as a
/// bare width (`From<usize>`, i.e. `Options::new(width)`; only for the default configuration).
#[derive(Clone, Copy, Debug, PartialEq)]
pub enum Entry {
    Ref,
    Owned,
    Usize,
}

#[derive(Clone, Copy, Debug, PartialEq)]
pub struct Cfg {
    pub entry: Entry,
    pub width: usize,
    pub sep: Sep,
    pub alg: Alg,
    pub spl: Spl,
    pub bw: bool,
    pub ii: &'static str,
    pub si: &'static str,
    pub crlf: bool,
}

#[cfg(feature = "full")]
pub const DEFAULT_PEN: [usize; 5] = [1000, 2500, 4, 25, 25];

#[cfg(feature = "full")]
pub fn penalties(p: [usize; 5]) -> textwrap::wrap_algorithms::Penalties {
    let mut pen = textwrap::wrap_algorithms::Penalties::new();
    pen.nline_penalty = p[0];
    pen.overflow_penalty = p[1];
    pen.short_last_line_fraction = p[2];
    pen.short_last_line_penalty = p[3];
    pen.hyphen_penalty = p[4];
    pen
}

impl Cfg {
    pub fn opts(&self) -> Options<'static> {
        let sep = match self.sep {
            Sep::Ascii => WordSeparator::AsciiSpace,
            #[cfg(feature = "full")]
            Sep::Uni => WordSeparator::UnicodeBreakProperties,
        };
        let alg = match self.alg {
            Alg::FirstFit => WrapAlgorithm::FirstFit,
            #[cfg(feature = "full")]
            Alg::Opt(p) => WrapAlgorithm::OptimalFit(penalties(p)),
            Alg::CustomOnePerLine => WrapAlgorithm::Custom(custom_one_per_line),
            Alg::CustomNaiveGreedy => WrapAlgorithm::Custom(custom_naive_greedy),
        };
        let spl = match self.spl {
            Spl::None => WordSplitter::NoHyphenation,
            Spl::Hyphen => WordSplitter::HyphenSplitter,
            Spl::Cust => WordSplitter::Custom(custom_split),
        };
        Options::new(self.width)
            .break_words(self.bw)
            .word_separator(sep)
            .wrap_algorithm(alg)
            .word_splitter(spl)
            .initial_indent(self.ii)
            .subsequent_indent(self.si)
            .line_ending(if self.crlf { LineEnding::CRLF } else { LineEnding::LF })
    }
    /// the documented defaults of `Options::new(width)` for this feature set
    pub fn is_default(&self) -> bool {
        #[cfg(feature = "full")]
        let (sep, alg) = (Sep::Uni, Alg::Opt(DEFAULT_PEN));
        #[cfg(not(feature = "full"))]
        let (sep, alg) = (Sep::Ascii, Alg::FirstFit);
        self.sep == sep && self.alg == alg && self.spl == Spl::Hyphen && self.bw && self.ii.is_empty() && self.si.is_empty() && !self.crlf
    }
    pub fn wrap<'a>(&self, text: &'a str, o: &Options<'a>) -> Vec<std::borrow::Cow<'a, str>> {
        match self.entry {
            Entry::Ref => textwrap::wrap(text, o),
            Entry::Owned => textwrap::wrap(text, o.clone()),
            Entry::Usize => textwrap::wrap(text, self.width),
        }
    }
    pub fn fill(&self, text: &str, o: &Options<'_>) -> String {
        match self.entry {
            Entry::Ref => textwrap::fill(text, o),
            Entry::Owned => textwrap::fill(text, o.clone()),
            Entry::Usize => textwrap::fill(text, self.width),
        }
    }
    pub fn ending(&self) -> &'static str {
        if self.crlf {
            "\r\n"
        } else {
            "\n"
        }
    }
    pub fn is_ff(&self) -> bool {
        self.alg == Alg::FirstFit
    }
    pub fn is_uni(&self) -> bool {
        self.sep != Sep::Ascii
    }
    pub fn d(&self) -> String {
        let w = if self.width == usize::MAX {
            "MAX".to_string()
        } else if self.width == usize::MAX - 1 {
            "MAX-1".to_string()
        } else {
            self.width.to_string()
        };
        format!(
            "{}width={} sep={:?} alg={:?} splitter={:?} break_words={} initial_indent={:?} subsequent_indent={:?} ending={}",
            match self.entry {
                Entry::Ref => "",
                Entry::Owned => "options passed by value; ",
                Entry::Usize => "options passed as a bare width (Options::new(width)); ",
            },
            w,
            self.sep,
            self.alg,
            self.spl,
            self.bw,
            self.ii,
            self.si,
            if self.crlf { "CRLF" } else { "LF" }
        )
    }
}

pub fn seps() -> Vec<Sep> {
    vec![
        Sep::Ascii,
        #[cfg(feature = "full")]
        Sep::Uni,
    ]
}

/// FirstFit and (full build) OptimalFit with default penalties.
pub fn algs_default() -> Vec<Alg> {
    vec![
        Alg::FirstFit,
        #[cfg(feature = "full")]
        Alg::Opt(DEFAULT_PEN),
    ]
}

/// All configurations except the width: sep x alg x splitter x bw x indents x ending.
#[derive(Clone, Debug)]
pub struct Gamma {
    pub seps: Vec<Sep>,
    pub algs: Vec<Alg>,
    pub spls: Vec<Spl>,
    pub bws: Vec<bool>,
    pub indents: Vec<(&'static str, &'static str)>,
    pub crlf: Vec<bool>,
}

impl Gamma {
    pub fn bases(&self) -> Vec<Cfg> {
        let mut v = vec![];
        for &crlf in &self.crlf {
            for &sep in &self.seps {
                for &alg in &self.algs {
                    for &spl in &self.spls {
                        for &bw in &self.bws {
                            for &(ii, si) in &self.indents {
                                v.push(Cfg { entry: Entry::Ref, width: 0, sep, alg, spl, bw, ii, si, crlf });
                            }
                        }
                    }
                }
            }
        }
        v
    }
    pub fn describe(&self) -> String {
        format!(
            "separators={:?} algorithms={:?} splitters={:?} break_words={:?} indent_pairs={:?} crlf={:?}",
            self.seps, self.algs, self.spls, self.bws, self.indents, self.crlf
        )
    }
}

/// Width range of DESIGN.md §3: 0..=hi and the two extremes.
pub fn widths(hi: usize) -> impl Iterator<Item = usize> {
    (0..=hi).chain([usize::MAX - 1, usize::MAX])
}
