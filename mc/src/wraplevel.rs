//! Text-level oracles shared by C01, C02, C03, C05, C07, C08, C09: one real
//! `wrap` execution per (text, configuration) state, evaluated against the
//! predicates of DESIGN.md §5.

use crate::cfg::*;
use crate::explore::Cx;
use crate::refmodel::*;
use serde_json::{json, Value};
use std::borrow::Cow;
use textwrap::core::{break_words, display_width, Word};
use textwrap::word_splitters::split_words;
use textwrap::{fill, wrap, WordSeparator, WordSplitter};

pub const M_C01: u32 = 1 << 0;
pub const M_C02: u32 = 1 << 1;
pub const M_C03: u32 = 1 << 2;
pub const M_C05: u32 = 1 << 3;
pub const M_C07: u32 = 1 << 4;
pub const M_C08: u32 = 1 << 5;
pub const M_C09: u32 = 1 << 6;

/// One output line located in its paragraph.
#[derive(Clone, Copy, Debug)]
pub struct LineMap {
    pub li: usize,
    pub s: usize,
    pub e: usize,
    pub hy: bool,
}

fn all_spaces(s: &str) -> bool {
    s.bytes().all(|b| b == b' ')
}

struct Matcher<'a> {
    text: &'a str,
    pars: &'a [&'a str],
    pstart: &'a [usize],
    lines: &'a [Cow<'a, str>],
    cfg: &'a Cfg,
    out: Vec<Vec<LineMap>>,
    steps: u32,
    /// all consistent assignments found (capped)
    solutions: Vec<Vec<Vec<LineMap>>>,
}

impl<'a> Matcher<'a> {
    fn indent(&self, li: usize) -> &'static str {
        if li == 0 {
            self.cfg.ii
        } else {
            self.cfg.si
        }
    }
    /// candidate placements of line li in paragraph pi from `cursor`
    fn candidates(&self, li: usize, pi: usize, cursor: usize) -> Vec<(usize, usize, bool)> {
        let par = self.pars[pi];
        let line: &str = &self.lines[li];
        let indent = self.indent(li);
        let content = match line.strip_prefix(indent) {
            Some(c) => c,
            None => return vec![],
        };
        let mut v = vec![];
        // a borrowed non-empty line with empty indent is located by its pointer
        if indent.is_empty() && !content.is_empty() {
            if let Cow::Borrowed(b) = &self.lines[li] {
                let base = self.text.as_ptr() as usize;
                let a = b.as_ptr() as usize;
                if a >= base + self.pstart[pi] && a + b.len() <= base + self.pstart[pi] + par.len() {
                    let p = a - base - self.pstart[pi];
                    // (the first slice of the text starts at byte 0: an uncovered space must lie
                    // *between* two slices or after the last one)
                    if p >= cursor && all_spaces(&par[cursor..p]) && (p == 0 || li > 0) {
                        v.push((p, p + b.len(), false));
                        return v;
                    }
                }
            }
        }
        for hy in [false, true] {
            if hy && !(self.cfg.spl == Spl::Cust && content.ends_with('-')) {
                continue;
            }
            let body = if hy { &content[..content.len() - 1] } else { content };
            // smallest p >= cursor with par[cursor..p] all spaces and par[p..] starting with body
            let mut p = cursor;
            loop {
                if par.is_char_boundary(p) && par[p..].starts_with(body) {
                    // a hyphen may only have been inserted at a split point of the splitter
                    if !hy || is_custom_split_point(par, p + body.len()) {
                        v.push((p, p + body.len(), hy));
                    }
                    break;
                }
                if li > 0 && p < par.len() && par.as_bytes()[p] == b' ' {
                    p += 1;
                } else {
                    break;
                }
            }
        }
        v
    }
    /// enumerate every consistent assignment of the lines to paragraphs (up to 32)
    fn go(&mut self, li: usize, pi: usize, cursor: usize, started: bool) {
        self.steps += 1;
        if self.steps > 20_000 || self.solutions.len() >= 32 {
            return;
        }
        if li < self.lines.len() {
            for (s, e, hy) in self.candidates(li, pi, cursor) {
                self.out[pi].push(LineMap { li, s, e, hy });
                self.go(li + 1, pi, e, true);
                self.out[pi].pop();
            }
        }
        if started && all_spaces(&self.pars[pi][cursor..]) {
            if pi + 1 == self.pars.len() {
                if li == self.lines.len() {
                    self.solutions.push(self.out.clone());
                }
                return;
            }
            self.go(li, pi + 1, 0, false);
        }
    }
}

/// Global C01 matcher (used only when the paragraph-structured match fails):
/// slices in input order, uncovered characters are spaces or parts of the
/// configured line-ending sequence.
fn global_match(text: &str, lines: &[Cow<str>], cfg: &Cfg) -> bool {
    fn go(text: &str, lines: &[Cow<str>], cfg: &Cfg, li: usize, cursor: usize, steps: &mut u32) -> bool {
        *steps += 1;
        if *steps > 20_000 {
            return false;
        }
        let ending = cfg.ending();
        let indent = if li == 0 { cfg.ii } else { cfg.si };
        let content = if li < lines.len() {
            match lines[li].strip_prefix(indent) {
                Some(c) => Some(c),
                None => return false,
            }
        } else {
            None
        };
        // candidate positions: cursor, then after each skippable unit (' ' or the line ending)
        let mut p = cursor;
        loop {
            match content {
                None => {
                    if p == text.len() {
                        return true;
                    }
                }
                Some(content) => {
                    for hy in [false, true] {
                        if hy && !(cfg.spl == Spl::Cust && content.ends_with('-')) {
                            continue;
                        }
                        let body = if hy { &content[..content.len() - 1] } else { content };
                        if hy && !is_custom_split_point(text, p + body.len()) {
                            continue;
                        }
                        if text[p..].starts_with(body) && go(text, lines, cfg, li + 1, p + body.len(), steps) {
                            return true;
                        }
                    }
                }
            }
            if li == 0 {
                return false; // nothing may be skipped before the first slice
            }
            if text[p..].starts_with(' ') {
                p += 1;
            } else if text[p..].starts_with(ending) {
                p += ending.len();
            } else {
                return false;
            }
        }
    }
    let mut steps = 0;
    go(text, lines, cfg, 0, 0, &mut steps)
}

/// Reference fragment boundaries (byte offsets strictly inside `par`) for a
/// built-in separator and the none/hyphen splitter.  For the Unicode separator
/// a boundary is reported as the interval of admissible offsets; `lo..=hi`.
pub fn ref_frag_bounds(par: &str, vis: &Vis, cfg: &Cfg) -> Vec<(usize, usize)> {
    let mut wb: Vec<(usize, usize)> = match cfg.sep {
        Sep::Ascii => ref_bounds_ascii(par).into_iter().map(|b| (b, b)).collect(),
        #[cfg(feature = "full")]
        Sep::Uni => ref_bounds_unicode_intervals(par, vis),
    };
    let _ = vis;
    if cfg.spl == Spl::Hyphen {
        let mut all = vec![0];
        all.extend(wb.iter().map(|&(_, hi)| hi));
        all.push(par.len());
        let mut extra = vec![];
        for k in 0..all.len() - 1 {
            let w = par[all[k]..all[k + 1]].trim_end_matches(' ');
            for p in ref_hyphen_points(w) {
                extra.push((all[k] + p, all[k] + p));
            }
        }
        wb.extend(extra);
        wb.sort();
        wb.dedup();
    }
    wb
}

fn sep_of(cfg: &Cfg) -> WordSeparator {
    match cfg.sep {
        Sep::Ascii => WordSeparator::AsciiSpace,
        #[cfg(feature = "full")]
        Sep::Uni => WordSeparator::UnicodeBreakProperties,
    }
}
fn spl_of(cfg: &Cfg) -> WordSplitter {
    match cfg.spl {
        Spl::None => WordSplitter::NoHyphenation,
        Spl::Hyphen => WordSplitter::HyphenSplitter,
        Spl::Cust => WordSplitter::Custom(custom_split),
    }
}

/// Fragments of a paragraph through the *public* pipeline.
pub fn pipeline<'a>(par: &'a str, cfg: &Cfg, spl: &'a WordSplitter, limit: usize) -> Vec<Word<'a>> {
    let sw = split_words(sep_of(cfg).find_words(par), spl);
    if cfg.bw {
        break_words(sw, limit)
    } else {
        sw.collect()
    }
}

/// Map the located lines of a paragraph to consecutive runs of fragments
/// (run k = the fragments that start in [s_k, s_{k+1})).  `None` if the lines
/// are not made of whole fragments.
pub fn map_runs(par: &str, pl: &[LineMap], frs: &[Word]) -> Option<Vec<(usize, usize)>> {
    let mut offs = Vec::with_capacity(frs.len());
    let mut off = 0;
    for f in frs {
        offs.push(off);
        off += f.word.len() + f.whitespace.len();
    }
    if off != par.len() {
        return None;
    }
    let mut runs = vec![];
    let mut fi = 0;
    for (k, l) in pl.iter().enumerate() {
        let a = fi;
        match pl.get(k + 1) {
            Some(next) => {
                while fi < frs.len() && offs[fi] < next.s {
                    fi += 1;
                }
            }
            None => fi = frs.len(),
        }
        let b = fi;
        if a == b {
            if l.s != l.e || l.hy {
                return None;
            }
        } else {
            let last = &frs[b - 1];
            if offs[a] != l.s || offs[b - 1] + last.word.len() != l.e {
                return None;
            }
            // an inserted hyphen must come from the last fragment's penalty
            if l.hy != !last.penalty.is_empty() {
                return None;
            }
        }
        runs.push((a, b));
    }
    Some(runs)
}

fn lines_json(lines: &[Cow<str>]) -> Value {
    Value::Array(lines.iter().map(|l| Value::String(l.to_string())).collect())
}

/// Evaluate the selected oracles on one (text, configuration) state.
pub fn check_wrap(text: &str, cfg: &Cfg, mask: u32, cx: &mut Cx) {
    cx.eval();
    let mut nt = false;
    let o = cfg.opts();
    let d = || cfg.d();
    let lines = match cx.guard(|| cfg.wrap(text, &o)) {
        Some(l) => l,
        None => return, // reported by guard as "subject-panicked"
    };
    cx.outcome(&lines);
    let les = cfg.ending();
    let pars: Vec<&str> = text.split(les).collect();
    let mut pstart = Vec::with_capacity(pars.len());
    {
        let mut off = 0;
        for p in &pars {
            pstart.push(off);
            off += p.len() + les.len();
        }
    }
    let viss: Vec<Option<Vis>> = pars.iter().map(|p| ref_visible(p)).collect();
    let wellformed = viss.iter().all(|v| v.is_some()) && ref_visible(cfg.ii).is_some() && ref_visible(cfg.si).is_some();
    let builtin = cfg.spl != Spl::Cust;

    // ---- C09 (a): fill == join(wrap); (c): never fewer lines than paragraphs
    if mask & M_C09 != 0 {
        if let Some(f) = cx.guard(|| cfg.fill(text, &o)) {
            let j = lines.join(les);
            cx.check("C09-fill-eq-join", f == j, &d, &|| json!({"fill": f, "join(wrap)": j}));
        }
        cx.check("C09-not-fewer-lines", lines.len() >= pars.len(), &d, &|| json!({"lines": lines_json(&lines), "paragraphs": pars.len()}));
    }

    // ---- C01 speaks of "every line of fill's result" too.  Where fill may take its own
    // byte-length shortcut (width at or above the byte length, give or take one) its lines are
    // judged as well: identical to wrap's lines (then the clauses below judge them), or else
    // in-order slices by the global matcher.
    if mask & M_C01 != 0 && cfg.width.saturating_add(1) >= text.len() {
        if let Some(f) = cx.guard(|| cfg.fill(text, &o)) {
            if f == lines.join(les) {
                cx.pass("C01-fill-lines-are-slices");
            } else {
                let fl: Vec<Cow<str>> = f.split(les).map(|l| Cow::Owned(l.to_string())).collect();
                let ok = global_match(text, &fl, cfg);
                cx.check("C01-fill-lines-are-slices", ok, &d, &|| json!({"fill": f, "wrap": lines_json(&lines), "note": "fill's lines differ from wrap's and are not indent + in-order slices covering the text up to spaces and line endings"}));
            }
        }
    }

    // ---- C09 (b): paragraphs wrap independently, for every split a + ending + b
    if mask & M_C09 != 0 && pars.len() >= 2 {
        nt = true;
        for k in 1..pars.len() {
            let a = &text[..pstart[k] - les.len()];
            let b = &text[pstart[k]..];
            let wa = match cx.guard(|| wrap(a, &o)) {
                Some(x) => x,
                None => continue,
            };
            let ok = lines.len() >= wa.len() && lines[..wa.len()] == wa[..];
            cx.check("C09-starts-with-wrap-a", ok, &d, &|| json!({"a": a, "wrap(a)": lines_json(&wa), "wrap(text)": lines_json(&lines)}));
            if !ok {
                continue;
            }
            let rest: Vec<String> = lines[wa.len()..].iter().map(|l| l.to_string()).collect();
            if cfg.ii.is_empty() && cfg.si.is_empty() {
                if let Some(wb) = cx.guard(|| wrap(b, &o)) {
                    let wb: Vec<String> = wb.iter().map(|l| l.to_string()).collect();
                    cx.check("C09-rest-eq-wrap-b", rest == wb, &d, &|| json!({"b": b, "rest": rest, "wrap(b)": wb}));
                }
            }
            for alt in ["", "zz zz zz zz", "  "] {
                let t2 = format!("{alt}{les}{b}");
                let r = cx.guard(|| {
                    let w2 = wrap(&t2, &o);
                    let wa2 = wrap(alt, &o).len();
                    w2.get(wa2..).map(|x| x.iter().map(|l| l.to_string()).collect::<Vec<_>>())
                });
                if let Some(r) = r {
                    let ok = r.as_ref() == Some(&rest);
                    cx.check("C09-rest-independent-of-a", ok, &d, &|| json!({"substitute_for_a": alt, "b": b, "rest_with_a": rest, "rest_with_substitute": r}));
                }
            }
        }
        if cx.want_sample() {
            cx.sample(&|| json!({"text": text, "config": cfg.d(), "lines": lines_json(&lines)}));
        }
    }

    // ---- C08 oracle 1: every line carries its indent
    let mut indent_ok = true;
    for (j, l) in lines.iter().enumerate() {
        let ind = if j == 0 { cfg.ii } else { cfg.si };
        if !l.starts_with(ind) {
            indent_ok = false;
            if mask & M_C08 != 0 {
                cx.fail("C08-indent", &d, &|| json!({"line_no": j, "line": l.to_string(), "expected_indent": ind, "lines": lines_json(&lines)}));
            }
            break;
        }
    }
    if mask & M_C08 != 0 && indent_ok {
        cx.pass("C08-indent");
        if (pars.len() >= 2 || pars.iter().any(|p| all_spaces(p))) && !(cfg.ii.is_empty() && cfg.si.is_empty()) {
            nt = true;
            if cx.want_sample() {
                cx.sample(&|| json!({"text": text, "config": cfg.d(), "lines": lines_json(&lines)}));
            }
        }
    }

    // ---- C05, mapping-free form: if *every* paragraph fits with the indent it will carry, the
    // whole output is determined by the statement (one line per paragraph: indent + paragraph
    // minus trailing spaces).  Needs no assignment of lines to paragraphs, so it also judges
    // outputs whose indents are missing.
    if mask & M_C05 != 0 && wellformed && builtin {
        let all_fit = pars.iter().enumerate().all(|(pi, _)| viss[pi].as_ref().unwrap().width() + ref_width(if pi == 0 { cfg.ii } else { cfg.si }) <= cfg.width);
        if all_fit {
            let expect: Vec<String> = pars.iter().enumerate().map(|(pi, par)| format!("{}{}", if pi == 0 { cfg.ii } else { cfg.si }, par.trim_end_matches(' '))).collect();
            let got: Vec<String> = lines.iter().map(|l| l.to_string()).collect();
            cx.check("C05-all-paragraphs-fit-unchanged", got == expect, &d, &|| json!({"expected": expect, "lines": got}));
        }
    }

    // ---- structure: locate every line in its paragraph
    if mask & (M_C01 | M_C02 | M_C03 | M_C05 | M_C07) == 0 {
        if nt {
            cx.nontrivial();
        }
        return;
    }
    let mut m = Matcher { text, pars: &pars, pstart: &pstart, lines: &lines, cfg, out: vec![vec![]; pars.len()], steps: 0, solutions: vec![] };
    m.go(0, 0, 0, false);
    let solutions = m.solutions;

    if mask & M_C01 != 0 {
        if !solutions.is_empty() {
            cx.pass("C01-slices-in-order");
        } else {
            let ok = global_match(text, &lines, cfg);
            cx.check("C01-slices-in-order", ok, &d, &|| json!({"lines": lines_json(&lines), "note": "no assignment of in-order slices (indent + slice [+ inserted hyphen]) covers the text up to spaces and line endings"}));
        }
    }
    if solutions.is_empty() {
        cx.note("unmappable-structure");
        if nt {
            cx.nontrivial();
        }
        return;
    }
    if solutions.len() > 1 {
        cx.note("ambiguous-line-to-paragraph-assignment(all assignments evaluated, the property must hold under one)");
    }

    // Empty lines can make the assignment of lines to paragraphs ambiguous.  The statements
    // quantify over "the" lines of a paragraph, so a clause is violated only if it is violated
    // under every consistent assignment: evaluate all, keep the one with the fewest failures.
    let env = Env { text, cfg, mask, lines: &lines, pars: &pars, pstart: &pstart, viss: &viss, wellformed, builtin };
    let mut best: Option<Eval> = None;
    for sol in &solutions {
        let e = eval_assignment(&env, sol);
        let better = match &best {
            None => true,
            Some(b) => e.failures() < b.failures(),
        };
        if better {
            best = Some(e);
        }
        if best.as_ref().map(|b| b.failures()) == Some(0) {
            break;
        }
    }
    let best = best.unwrap();
    for r in &best.recs {
        match &r.detail {
            None => cx.pass(r.sub),
            Some(v) => cx.check(r.sub, false, &d, &|| v.clone()),
        }
    }
    for n in &best.notes {
        cx.note(n);
    }
    if best.nt || nt {
        cx.nontrivial();
        if cx.want_sample() {
            cx.sample(&|| json!({"text": text, "config": cfg.d(), "lines": lines_json(&lines)}));
        }
    }
}

struct Rec {
    sub: &'static str,
    /// None = passed
    detail: Option<Value>,
}

struct Eval {
    recs: Vec<Rec>,
    notes: Vec<&'static str>,
    nt: bool,
}

impl Eval {
    fn failures(&self) -> usize {
        self.recs.iter().filter(|r| r.detail.is_some()).count()
    }
    fn check(&mut self, sub: &'static str, ok: bool, detail: &dyn Fn() -> Value) {
        self.recs.push(Rec { sub, detail: if ok { None } else { Some(detail()) } });
    }
}

struct Env<'a> {
    text: &'a str,
    cfg: &'a Cfg,
    mask: u32,
    lines: &'a [Cow<'a, str>],
    pars: &'a [&'a str],
    pstart: &'a [usize],
    viss: &'a [Option<Vis>],
    wellformed: bool,
    builtin: bool,
}

/// Evaluate the paragraph-level clauses under one assignment of lines to paragraphs.
fn eval_assignment(env: &Env, par_lines: &[Vec<LineMap>]) -> Eval {
    let Env { text, cfg, mask, lines, pars, pstart, viss, wellformed, builtin } = *env;
    let mut ev = Eval { recs: vec![], notes: vec![], nt: false };

    // ---- C01: borrow clause, trailing-space clause
    if mask & M_C01 != 0 {
        if lines.len() >= 2 {
            ev.nt = true;
        }
        for (pi, pl) in par_lines.iter().enumerate() {
            let par = pars[pi];
            let mut cursor = 0;
            for l in pl {
                if l.s > cursor || l.hy {
                    ev.nt = true;
                }
                cursor = l.e;
                let ind = if l.li == 0 { cfg.ii } else { cfg.si };
                if ind.is_empty() && !l.hy {
                    let ok = match &lines[l.li] {
                        Cow::Borrowed(b) => b.is_empty() || (b.as_ptr() as usize == text.as_ptr() as usize + pstart[pi] + l.s),
                        Cow::Owned(_) => false,
                    };
                    ev.check("C01-borrowed", ok, &|| json!({"line_no": l.li, "line": lines[l.li].to_string(), "owned": matches!(lines[l.li], Cow::Owned(_))}));
                }
                if wellformed && builtin && l.e > l.s && par[l.s..l.e].ends_with(' ') {
                    #[allow(unused_mut)]
                    let mut allowed = false;
                    #[cfg(feature = "full")]
                    if cfg.bw && cfg.sep == Sep::Uni {
                        let vis = viss[pi].as_ref().unwrap();
                        let fb = ref_frag_bounds(par, vis, cfg);
                        let mut all = vec![0];
                        all.extend(fb.iter().map(|&(_, hi)| hi));
                        all.push(par.len());
                        let avail = cfg.width.saturating_sub(ref_width(cfg.ii)).min(cfg.width.saturating_sub(ref_width(cfg.si)));
                        allowed = (0..all.len() - 1).any(|k| {
                            let w = par[all[k]..all[k + 1]].trim_end_matches(' ');
                            // a reference word cut through a sequence (a space inside an OSC) cannot be measured: lenient
                            w.contains(' ') && ref_visible(w).map(|v| v.width() > avail).unwrap_or(true)
                        });
                    }
                    ev.check("C01-no-trailing-space", allowed, &|| json!({"line_no": l.li, "line": lines[l.li].to_string(), "lines": lines_json(lines)}));
                    if allowed {
                        ev.notes.push("C01-trailing-space-exception-used");
                    }
                }
            }
        }
    }

    let spl = spl_of(cfg);
    for (pi, par) in pars.iter().enumerate() {
        let pl = &par_lines[pi];
        if pl.is_empty() {
            continue; // cannot happen: the matcher gives every paragraph >= 1 line
        }
        let first_indent = if pl[0].li == 0 { cfg.ii } else { cfg.si };

        // ---- C05 oracle 1: a paragraph that fits is one line, unchanged
        if mask & M_C05 != 0 && wellformed && builtin {
            let vis = viss[pi].as_ref().unwrap();
            if vis.width() + ref_width(first_indent) <= cfg.width {
                let expect = format!("{}{}", first_indent, par.trim_end_matches(' '));
                let ok = pl.len() == 1 && *lines[pl[0].li] == expect;
                ev.check("C05-fits-unchanged", ok, &|| json!({"paragraph_no": pi, "paragraph": par, "expected_line": expect, "lines": lines_json(lines)}));
                if par.len() >= cfg.width {
                    ev.notes.push("C05-fits-by-width-not-by-bytes");
                }
                if par.len() >= cfg.width || !first_indent.is_empty() {
                    // fits, but the byte-length shortcut cannot be taken: the general path must reproduce it
                    ev.nt = true;
                }
            }
        }

        // ---- C02: first-fit lines fit unless unbreakable
        if mask & M_C02 != 0 && wellformed && builtin && cfg.is_ff() {
            let vis = viss[pi].as_ref().unwrap();
            let mut fb: Option<Vec<(usize, usize)>> = None;
            for l in pl {
                let lw = match ref_visible(&lines[l.li]) {
                    Some(v) => v.width(),
                    None => {
                        // the output line contains a cut escape sequence: its width is not defined by the
                        // statement's grammar (C13's business), not judged here
                        ev.notes.push("C02-line-with-cut-sequence(not judged)");
                        continue;
                    }
                };
                if lw == cfg.width && cfg.width > 0 && pl.len() >= 2 {
                    ev.notes.push("C02-exact-fit-line");
                    ev.nt = true;
                }
                if lw > cfg.width {
                    let content = &par[l.s..l.e];
                    let cv = ref_visible(content);
                    let ok = match &cv {
                        None => true, // slice cut through a sequence: C12/C13 territory, not judged here
                        Some(cv) => {
                            cv.width() == 0
                                || if cfg.bw {
                                    cv.nonzero() <= 1
                                } else {
                                    let fb = fb.get_or_insert_with(|| ref_frag_bounds(par, vis, cfg));
                                    // a reference boundary strictly inside the slice (for interval
                                    // boundaries: the whole interval strictly inside)
                                    !fb.iter().any(|&(lo, hi)| l.s < lo && hi < l.e)
                                }
                        }
                    };
                    ev.check("C02-fits-or-unbreakable", ok, &|| json!({"line_no": l.li, "line": lines[l.li].to_string(), "line_width": lw, "lines": lines_json(lines)}));
                    if ok {
                        ev.notes.push("C02-overflow-accepted-by-exception");
                        ev.nt = true;
                    }
                } else {
                    ev.check("C02-fits-or-unbreakable", true, &|| Value::Null);
                }
            }
            if pars.len() >= 2 && ref_width(cfg.ii) != ref_width(cfg.si) {
                ev.nt = true;
            }
        }

        // ---- C07 (text level): greedy-maximal over the public pipeline's fragments
        if mask & M_C07 != 0 && cfg.is_ff() {
            let subw = cfg.width.saturating_sub(display_width(cfg.si));
            let frs = pipeline(par, cfg, &spl, subw);
            match map_runs(par, pl, &frs) {
                None => ev.notes.push("C07-lines-not-runs-of-pipeline-fragments"),
                Some(runs) => {
                    let mut why = "";
                    for (k, &(a, b)) in runs.iter().enumerate() {
                        let ind = if pl[k].li == 0 { cfg.ii } else { cfg.si };
                        let target = cfg.width.saturating_sub(display_width(ind));
                        // widths in columns, measured on the fragments' text (not the cached fields)
                        let mut wsum = 0usize;
                        for mi in a..b {
                            if mi > a && wsum + ref_width(frs[mi].word) + ref_width(frs[mi].penalty) > target {
                                why = "a fragment was added to a line although it did not fit";
                            }
                            wsum += ref_width(frs[mi].word) + ref_width(frs[mi].whitespace);
                        }
                        if a == b && k > 0 {
                            // first-fit opens a line only for a fragment that did not fit; only the
                            // first line of a paragraph may hold no fragment (indent-only line)
                            why = "a line without fragments after the first line of the paragraph";
                        }
                        if k + 1 < runs.len() {
                            let (na, nb) = runs[k + 1];
                            if na < nb {
                                let f = &frs[na];
                                if wsum + ref_width(f.word) + ref_width(f.penalty) <= target {
                                    why = "the first fragment of the next line would have fitted";
                                }
                            }
                        }
                    }
                    ev.check("C07-text-greedy-maximal", why.is_empty(), &|| json!({"paragraph": par, "why": why, "lines": lines_json(lines), "fragments": frs.iter().map(|w| json!([w.word, w.whitespace, w.penalty, w.width])).collect::<Vec<_>>() }));
                    if runs.len() >= 2 {
                        ev.nt = true;
                    }
                }
            }
        }

        // ---- C03 (text level): the paragraph's arrangement has minimum cost
        #[cfg(feature = "full")]
        if mask & M_C03 != 0 && builtin && (!cfg.bw || cfg.ii.is_empty()) {
            if let Alg::Opt(p) = cfg.alg {
                let lw = [cfg.width.saturating_sub(display_width(first_indent)), cfg.width.saturating_sub(display_width(cfg.si))];
                if lw[0] >= 1 && lw[1] >= 1 {
                    let frs = pipeline(par, cfg, &spl, lw[1]);
                    if !frs.is_empty() {
                        match map_runs(par, pl, &frs) {
                            None => ev.notes.push("C03-lines-not-runs-of-pipeline-fragments"),
                            Some(runs) => {
                                if runs.iter().any(|&(a, b)| a == b) {
                                    ev.check("C03-text-minimum-cost", false, &|| json!({"why": "empty line in an optimal-fit arrangement", "lines": lines_json(lines)}));
                                } else {
                                    let fr: Vec<Frag> = frs.iter().map(|w| Frag { w: ref_width(w.word) as f64, ws: ref_width(w.whitespace) as f64, p: ref_width(w.penalty) as f64 }).collect();
                                    let pen = Pen { nline: p[0] as f64, overflow: p[1] as f64, fraction: p[2] as f64, short: p[3] as f64, hyphen: p[4] as f64 };
                                    let widths = [lw[0] as f64, lw[1] as f64];
                                    let lens: Vec<usize> = runs.iter().map(|&(a, b)| b - a).collect();
                                    let got = ref_arrangement_cost(&fr, &lens, &widths, &pen);
                                    let best = ref_optimum_dp(&fr, &widths, &pen);
                                    ev.check("C03-text-minimum-cost", got == best, &|| json!({"paragraph": par, "lines": lines_json(lines), "cost": got, "minimum": best}));
                                    if runs.len() >= 2 {
                                        ev.nt = true;
                                        if ref_first_fit(&fr, &widths) != lens {
                                            ev.notes.push("C03-text-differs-from-first-fit");
                                        }
                                    }
                                }
                            }
                        }
                    }
                }
            }
        }
    }
    ev
}
