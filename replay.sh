#!/bin/bash
# /verif/replay.sh <replay-file>: re-execute exactly the recorded case against /repo's current tree
# (no exploration). exit 1 + VIOLATION line if it still violates the property, 0 if not.
set -u
HERE="$(cd "$(dirname "$0")" && pwd)"
F="${1:?usage: replay.sh <replay file>}"
export CARGO_NET_OFFLINE=true RUSTFLAGS="--cfg fuzzing" CARGO_TERM_COLOR=never VERIF_HOME="$HERE"
"$HERE/sync_subject.sh" || exit 2
b=$(python3 -c 'import json,sys; print(json.load(open(sys.argv[1])).get("build","full"))' "$F") || exit 2
feat=""; [ "$b" = full ] && feat="--features full"
( cd "$HERE/mc" && flock "$HERE/mc/.lock-$b" env CARGO_TARGET_DIR="$HERE/mc/target-$b" cargo build --release --offline $feat ) >/dev/null 2>&1 || { echo "MACHINERY ERROR: build failed" >&2; exit 2; }
exec "$HERE/mc/target-$b/release/twmc" replay "$F"
