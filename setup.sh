#!/bin/bash
# Build the explorer (both feature sets) against /repo's current working tree, offline.
set -eu
HERE="$(cd "$(dirname "$0")" && pwd)"
export CARGO_NET_OFFLINE=true RUSTFLAGS="--cfg fuzzing" CARGO_TERM_COLOR=never
"$HERE/sync_subject.sh"
cd "$HERE/mc"
flock "$HERE/mc/.lock-full" env CARGO_TARGET_DIR="$HERE/mc/target-full" cargo build --release --offline --features full
flock "$HERE/mc/.lock-min" env CARGO_TARGET_DIR="$HERE/mc/target-min" cargo build --release --offline
mkdir -p "$HERE/evidence" "$HERE/replays"
