#!/bin/bash
# /verif/check.sh <ID> <quick|thorough>
#   sync the subject from /repo's current working tree, rebuild, explore, write evidence.
# exit 0: property held on everything explored; 1: VIOLATION line(s) printed; 2: machinery error.
set -u
ID="${1:?usage: check.sh <ID> <quick|thorough>}"
TIER="${2:-${VERIF_TIER:-quick}}"
HERE="$(cd "$(dirname "$0")" && pwd)"
MC="$HERE/mc"
export CARGO_NET_OFFLINE=true
export RUSTFLAGS="--cfg fuzzing"
export CARGO_TERM_COLOR=never
export VERIF_HOME="$HERE"

"$HERE/sync_subject.sh" || { echo "MACHINERY ERROR: subject sync failed" >&2; exit 2; }

builds=$(awk -v id="$ID" '$1==id {print $2}' "$HERE/builds.txt")
[ -n "$builds" ] || { echo "MACHINERY ERROR: unknown property $ID" >&2; exit 2; }

mkdir -p "$HERE/evidence/.parts" "$HERE/replays"
rm -f "$HERE/evidence/$ID.json" "$HERE/evidence/.parts/$ID".*.json
final=0
parts=()
# build every needed feature set first, in parallel (separate target directories; a lock
# serialises concurrent builds of the same one)
pids=()
for b in ${builds//,/ }; do
  feat=""; [ "$b" = full ] && feat="--features full"
  ( cd "$MC" && flock "$MC/.lock-$b" env CARGO_TARGET_DIR="$MC/target-$b" cargo build --release --offline $feat ) > "$HERE/evidence/.parts/$ID.$b.build.log" 2>&1 &
  pids+=("$!:$b")
done
for pb in "${pids[@]}"; do
  if ! wait "${pb%%:*}"; then
    b="${pb##*:}"
    echo "MACHINERY ERROR: build ($b) failed against /repo's working tree; log: $HERE/evidence/.parts/$ID.$b.build.log" >&2
    tail -n 30 "$HERE/evidence/.parts/$ID.$b.build.log" >&2
    exit 2
  fi
done
for b in ${builds//,/ }; do
  part="$HERE/evidence/.parts/$ID.$b.json"
  "$MC/target-$b/release/twmc" check "$ID" --tier "$TIER" --part-out "$part"
  rc=$?
  case $rc in
    0) ;;
    1) final=1 ;;
    *) echo "MACHINERY ERROR: explorer ($b build) exited with status $rc" >&2; exit 2 ;;
  esac
  parts+=("$part")
done
"$MC/target-full/release/twmc" merge "$ID" "$TIER" "$HERE/evidence/$ID.json" "${parts[@]}" || exit 2
"$(command -v python3-vt || command -v python3)" "$HERE/validate_evidence.py" "$HERE/evidence/$ID.json" || { echo "MACHINERY ERROR: evidence file does not validate" >&2; exit 2; }
exit $final
