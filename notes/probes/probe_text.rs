use std::borrow::Cow;
use textwrap::core::{display_width, Word};
use textwrap::*;
use unicode_width::UnicodeWidthChar;

fn rec2(na: usize, maxlen: usize, idx: &mut Vec<usize>, f: &mut dyn FnMut(&[usize])) {
    f(idx);
    if idx.len() == maxlen { return; }
    for k in 0..na { idx.push(k); rec2(na, maxlen, idx, f); idx.pop(); }
}
fn strings(alpha: &[&str], maxlen: usize, f: &mut dyn FnMut(&[usize])) {
    fn rec(na: usize, maxlen: usize, idx: &mut Vec<usize>, f: &mut dyn FnMut(&[usize])) {
        if let Ok(sh) = std::env::var("SHARD") { let (k, n) = sh.split_once('/').unwrap(); let (k, n): (usize, usize) = (k.parse().unwrap(), n.parse().unwrap());
            if idx.is_empty() { if k != 0 { /* empty string only in shard 0 */ } else { f(idx); } if idx.len() == maxlen { return; } for s0 in 0..na { if s0 % n == k { idx.push(s0); rec2(na, maxlen, idx, f); idx.pop(); } } return; } }
        f(idx);
        if idx.len() == maxlen { return; }
        for k in 0..na { idx.push(k); rec(na, maxlen, idx, f); idx.pop(); }
    }
    rec(alpha.len(), maxlen, &mut vec![], f);
}

fn cw(c: char) -> usize { c.width().unwrap_or(0) }

/// visible chars (byte idx, char) and the ranges of escape sequences, for well-formed text
fn visible(s: &str) -> (Vec<(usize, char)>, Vec<(usize, usize)>) {
    let mut vis = vec![]; let mut seqs = vec![];
    let cs: Vec<(usize, char)> = s.char_indices().collect();
    let mut i = 0;
    while i < cs.len() {
        let (b, c) = cs[i];
        if c == '\x1b' {
            let start = b;
            i += 1;
            if i < cs.len() && cs[i].1 == '[' {
                i += 1;
                while i < cs.len() { let ch = cs[i].1; i += 1; if ('\x40'..='\x7e').contains(&ch) { break; } }
            } else if i < cs.len() && cs[i].1 == ']' {
                i += 1; let mut last = ']';
                while i < cs.len() { let ch = cs[i].1; i += 1; if ch == '\x07' || (ch == '\\' && last == '\x1b') { break; } last = ch; }
            } else if i < cs.len() { i += 1; }
            let end = if i < cs.len() { cs[i].0 } else { s.len() };
            seqs.push((start, end));
        } else { vis.push((b, c)); i += 1; }
    }
    (vis, seqs)
}
fn ref_width(s: &str) -> usize { visible(s).0.iter().map(|&(_, c)| cw(c)).sum() }

/// reference word boundaries (byte offsets in `line`, strictly inside) for ASCII separator
fn ref_bounds_ascii(line: &str) -> Vec<usize> {
    let b = line.as_bytes();
    (1..b.len()).filter(|&i| b[i - 1] == b' ' && b[i] != b' ' && line.is_char_boundary(i)).collect()
}
/// reference boundaries in *stripped* coordinates for the unicode separator
fn ref_bounds_unicode_stripped(line: &str) -> (String, Vec<usize>) {
    let (vis, _) = visible(line);
    let stripped: String = vis.iter().map(|&(_, c)| c).collect();
    let v = unicode_linebreak::linebreaks(&stripped)
        .map(|(i, _)| i)
        .filter(|&i| i != stripped.len())
        .filter(|&i| !matches!(stripped[..i].chars().next_back(), Some('-') | Some('\u{ad}')))
        .collect();
    (stripped, v)
}

#[derive(Default)]
struct Stats { n: u64, bad: std::collections::BTreeMap<&'static str, u64> }
impl Stats {
    fn fail(&mut self, id: &'static str, msg: impl FnOnce() -> String) {
        let e = self.bad.entry(id).or_insert(0); *e += 1;
        if *e <= 6 { println!("FAIL {} {}", id, msg()); }
    }
}

fn check_find_words(line: &str, st: &mut Stats) {
    for (sepname, sep) in [("ascii", WordSeparator::AsciiSpace), ("uni", WordSeparator::UnicodeBreakProperties)] {
        let words: Vec<Word> = sep.find_words(line).collect();
        let mut cat = String::new();
        let mut bounds = vec![];
        for w in &words {
            if !cat.is_empty() { bounds.push(cat.len()); }
            cat.push_str(w.word); cat.push_str(w.whitespace);
            if !w.whitespace.chars().all(|c| c == ' ') || w.word.ends_with(' ') || w.width != ref_width(w.word) || !w.penalty.is_empty() {
                st.fail("C11-shape", || format!("{sepname} line={line:?} w={w:?}"));
            }
        }
        if cat != line { st.fail("C11-lossless", || format!("{sepname} line={line:?} words={words:?}")); continue; }
        if sepname == "ascii" {
            if bounds != ref_bounds_ascii(line) { st.fail("C11-ascii-bounds", || format!("line={line:?} got={bounds:?}")); }
        } else {
            let (vis, seqs) = visible(line);
            let (_stripped, exp) = ref_bounds_unicode_stripped(line);
            let mut got = vec![];
            let mut inside = false;
            for &b in &bounds {
                if seqs.iter().any(|&(s, e)| s < b && b < e) { inside = true; }
                got.push(vis.iter().filter(|&&(i, _)| i < b).map(|&(_, c)| c.len_utf8()).sum::<usize>());
            }
            if inside { st.fail("C11-inside-seq", || format!("line={line:?} bounds={bounds:?}")); }
            let th = _stripped.ends_with('-') || _stripped.ends_with('\u{ad}'); if got != exp && th { st.fail("C11-trailing-hyphen", || String::new()); } else if got != exp { st.fail("C11-uni-bounds", || format!("line={line:?} got={got:?} exp={exp:?} words={:?}", words.iter().map(|w| w.word).collect::<Vec<_>>())); }
        }
    }
}


fn custom_split(word: &str) -> Vec<usize> {
    let cs: Vec<(usize, char)> = word.char_indices().collect();
    (1..cs.len()).filter(|&k| cs[k-1].1.is_ascii_alphabetic() && cs[k].1.is_ascii_alphabetic()).map(|k| cs[k].0).collect()
}

#[derive(Clone)]
struct Cfg { width: usize, sep: WordSeparator, sepn: &'static str, alg: WrapAlgorithm, algn: &'static str, spl: WordSplitter, spln: &'static str, bw: bool, ii: &'static str, si: &'static str, le: LineEnding }
impl Cfg {
    fn opts(&self) -> Options<'static> {
        Options::new(self.width).break_words(self.bw).word_separator(self.sep).wrap_algorithm(self.alg).word_splitter(self.spl.clone())
            .initial_indent(self.ii).subsequent_indent(self.si).line_ending(self.le)
    }
    fn d(&self) -> String { format!("w={} sep={} alg={} spl={} bw={} ii={:?} si={:?} le={:?}", self.width, self.sepn, self.algn, self.spln, self.bw, self.ii, self.si, self.le) }
}

fn ref_hyphen_points(word: &str) -> Vec<usize> {
    let cs: Vec<(usize, char)> = word.char_indices().collect();
    (1..cs.len().saturating_sub(1)).filter(|&k| cs[k].1 == '-' && cs[k-1].1.is_alphanumeric() && cs[k+1].1.is_alphanumeric()).map(|k| cs[k].0 + 1).collect()
}

/// reference fragment boundaries (byte offsets strictly inside paragraph) for built-in sep + none/hyphen splitter
fn ref_frag_bounds(par: &str, c: &Cfg) -> Vec<usize> {
    let mut wb: Vec<usize> = if c.sepn == "ascii" { ref_bounds_ascii(par) } else {
        // map stripped bounds back to original: position right after previous visible char
        let (vis, _) = visible(par);
        let (_, sb) = ref_bounds_unicode_stripped(par);
        let mut acc = 0; let mut out = vec![];
        for (k, &(_b, ch)) in vis.iter().enumerate() {
            if sb.contains(&acc) && k > 0 { let (pb, pc) = vis[k-1]; out.push(pb + pc.len_utf8()); }
            acc += ch.len_utf8();
        }
        out
    };
    if c.spln == "hyphen" {
        let mut all = vec![0]; all.extend(wb.iter().copied()); all.push(par.len());
        let mut extra = vec![];
        for k in 0..all.len()-1 { let w = par[all[k]..all[k+1]].trim_end_matches(' '); for p in ref_hyphen_points(w) { extra.push(all[k] + p); } }
        wb.extend(extra); wb.sort(); wb.dedup();
    }
    wb
}


fn map_runs(par: &str, pl: &[(usize, usize, usize, bool)], frs: &[Word]) -> Option<Vec<(usize, usize)>> {
    let mut fi = 0usize; let mut pos = 0usize;
    let mut runs: Vec<(usize, usize)> = vec![];
    for (k, &(_l, s, e, _)) in pl.iter().enumerate() {
        let start = fi;
        if s == e {
            let next_start = pl.get(k + 1).map(|x| x.1).unwrap_or(par.len());
            // an empty slice may consume at most one empty-word fragment (e.g. a leading-whitespace word)
            if fi < frs.len() && frs[fi].word.is_empty() && pos >= s && pos + frs[fi].whitespace.len() <= next_start && !(frs[fi].whitespace.is_empty() && frs[fi].penalty.is_empty() && false) {
                pos += frs[fi].whitespace.len(); fi += 1;
            }
        } else {
            // skip leading empty-word fragments that belong to this line (e.g. "  foo": ["", "foo"]) : they start at pos <= s
            if pos > s { return None; }
            while fi < frs.len() && pos < e {
                pos += frs[fi].word.len();
                if pos >= e { if pos != e { return None; } pos += frs[fi].whitespace.len(); fi += 1; break; }
                pos += frs[fi].whitespace.len(); fi += 1;
            }
        }
        runs.push((start, fi));
    }
    if fi != frs.len() { return None; }
    Some(runs)
}

fn ref_line_cost(frs: &[Word], i: usize, j: usize, lw: [usize; 2], pen: &textwrap::wrap_algorithms::Penalties) -> f64 {
    let n = frs.len();
    let target = (if i == 0 { lw[0] } else { lw[1] }) as f64;
    let mut width = 0.0;
    for f in &frs[i..j] { width += (f.width + f.whitespace.len()) as f64; }
    width = width - frs[j-1].whitespace.len() as f64 + frs[j-1].penalty.len() as f64;
    let mut c = pen.nline_penalty as f64;
    if width > target { c += (width - target) * pen.overflow_penalty as f64; }
    else if j < n { let g = target - width; c += g * g; }
    else if i + 1 == j && width < target / pen.short_last_line_fraction as f64 { c += pen.short_last_line_penalty as f64; }
    if !frs[j-1].penalty.is_empty() { c += pen.hyphen_penalty as f64; }
    c
}
fn ref_optimum(frs: &[Word], lw: [usize; 2], pen: &textwrap::wrap_algorithms::Penalties) -> f64 {
    let n = frs.len();
    let mut b = vec![f64::INFINITY; n + 1]; b[0] = 0.0;
    for j in 1..=n { for i in 0..j { let c = b[i] + ref_line_cost(frs, i, j, lw, pen); if c < b[j] { b[j] = c; } } }
    b[n]
}

fn check_wrap(text: &str, c: &Cfg, wellformed: bool, st: &mut Stats) {
    let o = c.opts();
    let lines = wrap(text, &o);
    let les = c.le.as_str();
    let pars: Vec<&str> = text.split(les).collect();
    // paragraph start offsets
    let mut pstart = vec![]; { let mut off = 0; for p in &pars { pstart.push(off); off += p.len() + les.len(); } }
    // --- C09-a: fill == join
    let f = fill(text, &o);
    if f != lines.join(les) { st.fail("C09-fill-join", || format!("text={text:?} {} fill={f:?} lines={lines:?}", c.d())); }
    if lines.len() < pars.len() { st.fail("C09-fewer-lines", || format!("text={text:?} {}", c.d())); }
    // --- C08 + C01: walk lines
    let mut li = 0usize; // line index
    let base = text.as_ptr() as usize;
    let mut ok_struct = true;
    // per paragraph: collect (line idx, content start, content end, hyphen_inserted)
    let mut par_lines: Vec<Vec<(usize, usize, usize, bool)>> = vec![vec![]; pars.len()];
    'outer: for (pi, par) in pars.iter().enumerate() {
        // how many lines belong to this paragraph? Unknown a priori: greedily match lines to this paragraph until the next line cannot be matched in remaining part... 
        // Instead use wrap(par) with state: number of lines = wrap of this paragraph alone with same "first" status. Use C09: lines of paragraph count = len(wrap(text up to this paragraph)) - previous.
        let upto = &text[..pstart[pi] + par.len()];
        let cnt = wrap(upto, &o).len();
        if cnt < li + 1 || cnt > lines.len() { st.fail("C09-prefix-count", || format!("text={text:?} {} cnt={cnt} li={li}", c.d())); ok_struct = false; break 'outer; }
        let mut cursor = 0usize; // within par
        while li < cnt {
            let line = &lines[li];
            let indent = if li == 0 { c.ii } else { c.si };
            if !line.starts_with(indent) { st.fail("C08-indent", || format!("text={text:?} {} line#{li}={line:?} lines={lines:?}", c.d())); ok_struct = false; break 'outer; }
            let content = &line[indent.len()..];
            // match
            let mut found = None;
            for hy in [false, true] {
                if hy && (!content.ends_with('-') || c.spln != "custom") { continue; }
                let body = if hy { &content[..content.len()-1] } else { content };
                // smallest p >= cursor with par[cursor..p] all spaces and par[p..].starts_with(body)
                let mut p = cursor;
                loop {
                    if par.is_char_boundary(p) && par[p..].starts_with(body) { found = Some((p, p + body.len(), hy)); break; }
                    if p < par.len() && par.as_bytes()[p] == b' ' { p += 1; } else { break; }
                }
                if found.is_some() { break; }
            }
            let (s, e, hy) = match found { Some(x) => x, None => { st.fail("C01-slice", || format!("text={text:?} {} line#{li}={line:?} lines={lines:?}", c.d())); ok_struct = false; break 'outer; } };
            if indent.is_empty() && !hy {
                match line { Cow::Borrowed(b) => { if !b.is_empty() { let a = b.as_ptr() as usize; if a != base + pstart[pi] + s { st.fail("C01-ptr", || format!("text={text:?} {} line#{li}={line:?}", c.d())); } } }
                             Cow::Owned(_) => st.fail("C01-owned", || format!("text={text:?} {} line#{li}={line:?}", c.d())) }
            }
            par_lines[pi].push((li, s, e, hy));
            cursor = e; li += 1;
        }
        // rest of paragraph must be spaces
        if !par[cursor..].bytes().all(|b| b == b' ') { st.fail("C01-lost-tail", || format!("text={text:?} {} par={par:?} cursor={cursor} lines={lines:?}", c.d())); ok_struct = false; break 'outer; }
    }
    if ok_struct && li != lines.len() { st.fail("C01-extra-lines", || format!("text={text:?} {}", c.d())); ok_struct = false; }
    if !ok_struct { return; }
    let builtin = c.spln != "custom";
    for (pi, par) in pars.iter().enumerate() {
        let pl = &par_lines[pi];
        let first_indent = if pl[0].0 == 0 { c.ii } else { c.si };
        // C05
        if wellformed && builtin && ref_width(par) + ref_width(first_indent) <= c.width {
            if pl.len() != 1 || lines[pl[0].0] != format!("{}{}", first_indent, par.trim_end_matches(' ')) {
                st.fail("C05-fits", || format!("text={text:?} {} par#{pi} lines={lines:?}", c.d()));
            }
        }
        // C01 trailing-space rule (wellformed only)
        if wellformed && builtin {
            for &(l, s, e, _) in pl {
                if e > s && par[s..e].ends_with(' ') {
                    let fb = ref_frag_bounds(par, c);
                    let mut all = vec![0]; all.extend(fb); all.push(par.len());
                    let subw = c.width.saturating_sub(ref_width(c.si));
                    let allowed = c.bw && c.sepn == "uni" && (0..all.len()-1).any(|k| { let w = par[all[k]..all[k+1]].trim_end_matches(' '); w.contains(' ') && ref_width(w) > subw });
                    if !allowed { st.fail("C01-trailing-space", || format!("text={text:?} {} line#{l}={:?}", c.d(), lines[l])); }
                }
            }
        }
        // C02 (first fit only)
        if wellformed && builtin && c.algn == "ff" {
            for &(l, s, e, _) in pl {
                if ref_width(&lines[l]) > c.width {
                    let content = &par[s..e];
                    let okx = ref_width(content) == 0 || if c.bw { visible(content).0.iter().filter(|&&(_, ch)| cw(ch) > 0).count() <= 1 }
                              else { !ref_frag_bounds(par, c).iter().any(|&b| s < b && b < e) };
                    if !okx { st.fail("C02-overflow", || format!("text={text:?} {} line#{l}={:?} lines={lines:?}", c.d(), lines[l])); }
                }
            }
        }
        // C07 text-level (first fit): actual fragments through public API
        if c.algn == "ff" {
            let subw = c.width.saturating_sub(display_width(c.si));
            let frs: Vec<Word> = { let sw = textwrap::word_splitters::split_words(c.sep.find_words(par), &c.spl); if c.bw { textwrap::core::break_words(sw, subw) } else { sw.collect() } };
            // map lines to fragment runs
            let mut fi = 0usize; let mut pos = 0usize; let mut okmap = true;
            let mut runs: Vec<(usize, usize)> = vec![];
            for &(_l, s, e, _) in pl {
                // skip: fragments start where? pos should equal s unless empty run
                let start = fi;
                if s == e {
                    // empty content: may consume zero fragments, or fragments with empty words (e.g. leading whitespace word)
                    // consume fragments while they are empty-word and pos < ... ambiguous: consume empty-word fragments only if next line can't start here -> handle simply: consume empty-word fragments whose whitespace lies before next line's start
                    let next_start = pl.iter().find(|x| x.1 >= e && x.0 > _l).map(|x| x.1).unwrap_or(par.len());
                    while fi < frs.len() && frs[fi].word.is_empty() && pos + frs[fi].whitespace.len() <= next_start && pos >= s { pos += frs[fi].whitespace.len(); fi += 1; break; }
                } else {
                    if pos != s { okmap = false; break; }
                    while fi < frs.len() && pos < e { pos += frs[fi].word.len(); if pos >= e { // last fragment of line
                            if pos != e { okmap = false; } pos += frs[fi].whitespace.len(); fi += 1; break; }
                        pos += frs[fi].whitespace.len(); fi += 1; }
                    // trailing zero-length fragments? none
                }
                runs.push((start, fi));
            }
            if !okmap || fi != frs.len() { st.fail("C07-map", || format!("text={text:?} {} par={par:?} frs={:?} pl={pl:?}", c.d(), frs.iter().map(|w| (w.word, w.whitespace, w.penalty)).collect::<Vec<_>>())); }
            else {
                for (k, &(a, b)) in runs.iter().enumerate() {
                    let l = pl[k].0;
                    let ind = if l == 0 { c.ii } else { c.si };
                    let target = c.width.saturating_sub(display_width(ind));
                    let mut wsum = 0usize;
                    for m in a..b {
                        if m > a && wsum + frs[m].width + frs[m].penalty.len() > target { st.fail("C07-overfull", || format!("text={text:?} {} lines={lines:?} line#{l}", c.d())); }
                        wsum += frs[m].width + frs[m].whitespace.len();
                    }
                    if k + 1 < runs.len() {
                        let (na, nb) = runs[k+1];
                        if na < nb { let f = &frs[na]; if !(wsum + f.width + f.penalty.len() > target) { st.fail("C07-not-maximal", || format!("text={text:?} {} lines={lines:?} line#{l} target={target}", c.d())); } }
                    }
                }
            }
        }
    }

    // C03 text-level
    if let WrapAlgorithm::OptimalFit(pen) = c.alg {
        if builtin && (!c.bw || c.ii.is_empty()) {
            for (pi, par) in pars.iter().enumerate() {
                let pl = &par_lines[pi];
                let first_indent = if pl[0].0 == 0 { c.ii } else { c.si };
                let lw = [c.width.saturating_sub(display_width(first_indent)), c.width.saturating_sub(display_width(c.si))];
                if lw[0] < 1 || lw[1] < 1 { continue; }
                let frs: Vec<Word> = { let sw = textwrap::word_splitters::split_words(c.sep.find_words(par), &c.spl); if c.bw { textwrap::core::break_words(sw, lw[1]) } else { sw.collect() } };
                if frs.is_empty() { continue; }
                match map_runs(par, pl, &frs) {
                    None => st.fail("C03-map", || format!("text={text:?} {} par={par:?} pl={pl:?} frs={:?}", c.d(), frs.iter().map(|w| (w.word, w.whitespace)).collect::<Vec<_>>())),
                    Some(runs) => {
                        if runs.iter().any(|&(a, b)| a == b) { st.fail("C03-empty-run", || format!("text={text:?} {} lines={lines:?}", c.d())); continue; }
                        let got: f64 = runs.iter().map(|&(a, b)| ref_line_cost(&frs, a, b, lw, &pen)).sum();
                        let best = ref_optimum(&frs, lw, &pen);
                        if got != best { st.fail("C03-text-subopt", || format!("text={text:?} {} par={par:?} lines={lines:?} got={got} best={best}", c.d())); }
                    }
                }
            }
        }
    }
    // C09: paragraph independence
    if pars.len() >= 2 {
        let a = pars[0]; let b = &text[a.len() + les.len()..];
        let wa = wrap(a, &o);
        if lines.len() < wa.len() || lines[..wa.len()] != wa[..] { st.fail("C09-prefix", || format!("text={text:?} {}", c.d())); }
        else {
            let rest: Vec<String> = lines[wa.len()..].iter().map(|l| l.to_string()).collect();
            if c.ii.is_empty() && c.si.is_empty() { let wb: Vec<String> = wrap(b, &o).iter().map(|l| l.to_string()).collect(); if rest != wb { st.fail("C09-rest-eq-wrap-b", || format!("text={text:?} {}", c.d())); } }
            for alt in ["", "zz zz zz zz", "  "] { let t2 = format!("{alt}{les}{b}"); let w2 = wrap(&t2, &o); let wa2 = wrap(alt, &o).len();
                let rest2: Vec<String> = w2[wa2..].iter().map(|l| l.to_string()).collect();
                if rest2 != rest { st.fail("C09-rest-depends-on-a", || format!("text={text:?} alt={alt:?} {} rest={rest:?} rest2={rest2:?}", c.d())); } }
        }
    }
}

fn main() {
    let mode = std::env::args().nth(1).unwrap_or("c11".into());
    let maxlen: usize = std::env::args().nth(2).map(|s| s.parse().unwrap()).unwrap_or(4);
    let mut st = Stats::default();
    if mode == "c11" {
        let alpha = ["a", " ", "-", "你", "\u{301}", "\t", "\u{a0}", "\u{200b}", "\u{2060}", "\u{ad}", "😀", ")", "(", "\r", "\n", "\x1b[1m", "\x1b]8;;u\x1b\\", "é", "1", "."];
        strings(&alpha, maxlen, &mut |idx| {
            let line: String = idx.iter().map(|&k| alpha[k]).collect();
            st.n += 1;
            check_find_words(&line, &mut st);
        });
    }
    if mode == "wrap" {
        let alpha = ["a", " ", "-", "你", "\n", "\u{301}", "(", "\x1b[1m"];
        let indents = [("", ""), (">", ""), ("", "> "), ("你", ">"), (">>>", "  ")];
        strings(&alpha, maxlen, &mut |idx| {
            let text0: String = idx.iter().map(|&k| alpha[k]).collect();
            for le in [LineEnding::LF, LineEnding::CRLF] {
                let text = if le == LineEnding::CRLF { text0.replace('\n', "\r\n") } else { text0.clone() };
                for width in (0..=(idx.len() + 3)).chain([usize::MAX]) {
                for (sepn, sep) in [("ascii", WordSeparator::AsciiSpace), ("uni", WordSeparator::UnicodeBreakProperties)] {
                for (algn, alg) in [("ff", WrapAlgorithm::FirstFit), ("opt", WrapAlgorithm::new_optimal_fit())] {
                for (spln, spl) in [("none", WordSplitter::NoHyphenation), ("hyphen", WordSplitter::HyphenSplitter), ("custom", WordSplitter::Custom(custom_split))] {
                for bw in [true, false] {
                for (ii, si) in indents {
                    let c = Cfg { width, sep, sepn, alg, algn, spl: spl.clone(), spln, bw, ii, si, le };
                    st.n += 1;
                    check_wrap(&text, &c, true, &mut st);
                }}}}}}
            }
        });
    }

    if mode == "c05" {
        let alpha = ["a", " ", "-", "你", "é", "\u{301}", "\x1b[1m", "\t"];
        let mut eligible = 0u64; let mut gap = 0u64;
        strings(&alpha, maxlen, &mut |idx| {
            let text: String = idx.iter().map(|&k| alpha[k]).collect();
            let dw = ref_width(&text);
            for width in (0..=(text.len() + 2)).chain([usize::MAX - 1, usize::MAX]) {
                if text.len() < width { eligible += 1; } else if dw <= width { gap += 1; }
                for (sepn, sep) in [("ascii", WordSeparator::AsciiSpace), ("uni", WordSeparator::UnicodeBreakProperties)] {
                for (algn, alg) in [("ff", WrapAlgorithm::FirstFit), ("opt", WrapAlgorithm::new_optimal_fit())] {
                for (spln, spl) in [("none", WordSplitter::NoHyphenation), ("hyphen", WordSplitter::HyphenSplitter)] {
                for bw in [true, false] {
                for (ii, si) in [("", ""), (">", ""), ("", ">"), ("你", ">"), (">", "你")] {
                    let c = Cfg { width, sep, sepn, alg, algn, spl: spl.clone(), spln, bw, ii, si, le: LineEnding::LF };
                    st.n += 1;
                    check_wrap(&text, &c, true, &mut st);
                    let o = c.opts();
                    for pre in [false, true] {
                        let mut l1: Vec<Cow<str>> = if pre { vec![Cow::from("x")] } else { vec![] };
                        let mut l2 = l1.clone();
                        textwrap::fuzzing::wrap_single_line(&text, &o, &mut l1);
                        textwrap::fuzzing::wrap_single_line_slow_path(&text, &o, &mut l2);
                        if l1 != l2 { st.fail("C05-diff-wrap", || format!("text={text:?} {} pre={pre} fast={l1:?} slow={l2:?}", c.d())); }
                    }
                    let f1 = fill(&text, &o); let f2 = textwrap::fuzzing::fill_slow_path(&text, o.clone());
                    if f1 != f2 { st.fail("C05-diff-fill", || format!("text={text:?} {} fast={f1:?} slow={f2:?}", c.d())); }
                }}}}}
            }
        });
        println!("eligible={eligible} gap={gap}");
    }

    if mode == "c03t" {
        let alpha = ["a", "aa", "aaa", " ", "-", "\n", "你"];
        use textwrap::wrap_algorithms::Penalties;
        let pens = [Penalties::new(), Penalties { nline_penalty: 0, overflow_penalty: 1, short_last_line_fraction: 4, short_last_line_penalty: 25, hyphen_penalty: 25 }, Penalties { nline_penalty: 3, overflow_penalty: 7, short_last_line_fraction: 2, short_last_line_penalty: 5, hyphen_penalty: 0 }];
        strings(&alpha, maxlen, &mut |idx| {
            let text: String = idx.iter().map(|&k| alpha[k]).collect();
            for width in 1..=(text.len() + 2) {
                for (sepn, sep) in [("ascii", WordSeparator::AsciiSpace), ("uni", WordSeparator::UnicodeBreakProperties)] {
                for pen in pens {
                for (spln, spl) in [("none", WordSplitter::NoHyphenation), ("hyphen", WordSplitter::HyphenSplitter)] {
                for bw in [true, false] {
                for (ii, si) in [("", ""), (">", ""), ("", ">>"), ("你", ">")] {
                    let c = Cfg { width, sep, sepn, alg: WrapAlgorithm::OptimalFit(pen), algn: "opt", spl: spl.clone(), spln, bw, ii, si, le: LineEnding::LF };
                    st.n += 1;
                    // only C03 part matters; check_wrap runs the others too (C05 with non-default penalties may not apply) -> run full and filter names
                    check_wrap(&text, &c, false, &mut st);
                }}}}}
            }
        });
    }

    if mode == "pmachine" {
        let menu = ["", " ", "a", "aaaa bb", "a-b", "你你", "a  ", "\x1b[1ma", "( a"];
        let indents = [("", ""), (">", ""), ("", "> "), ("你", ">"), (">>>", "  "), ("\x1b[1m", "")];
        let mut states = 0u64; let mut trans = 0u64;
        for width in [0usize, 1, 2, 3, 4, 5, 7, usize::MAX] {
        for (sepn, sep) in [("ascii", WordSeparator::AsciiSpace), ("uni", WordSeparator::UnicodeBreakProperties)] {
        for (algn, alg) in [("ff", WrapAlgorithm::FirstFit), ("opt", WrapAlgorithm::new_optimal_fit())] {
        for (spln, spl) in [("none", WordSplitter::NoHyphenation), ("hyphen", WordSplitter::HyphenSplitter)] {
        for bw in [true, false] {
        for (ii, si) in indents {
            let c = Cfg { width, sep, sepn, alg, algn, spl: spl.clone(), spln, bw, ii, si, le: LineEnding::LF };
            let o = c.opts();
            // table: (paragraph idx, first?) -> appended lines
            let mut table: std::collections::HashMap<(usize, bool), (Vec<String>, Vec<usize>)> = Default::default();
            strings(&menu, maxlen, &mut |hist| {
                states += 1;
                if hist.is_empty() { return; }
                // replay history through the real transition function
                let mut lines: Vec<Cow<str>> = vec![];
                for (k, &pi) in hist.iter().enumerate() {
                    let before = lines.len();
                    textwrap::fuzzing::wrap_single_line(menu[pi], &o, &mut lines);
                    if k + 1 == hist.len() {
                        trans += 1; st.n += 1;
                        let appended: Vec<String> = lines[before..].iter().map(|l| l.to_string()).collect();
                        let key = (pi, before == 0);
                        match table.get(&key) {
                            None => { table.insert(key, (appended, hist.to_vec())); }
                            Some((prev, wit)) => if *prev != appended { st.fail("C09-abstraction", || format!("{} par={:?} hist={hist:?} appended={appended:?} but hist={wit:?} gave {prev:?}", c.d(), menu[pi])); }
                        }
                    }
                }
                let joined: String = hist.iter().map(|&pi| menu[pi]).collect::<Vec<_>>().join("\n");
                let one: Vec<String> = wrap(&joined, &o).iter().map(|l| l.to_string()).collect();
                let fold: Vec<String> = lines.iter().map(|l| l.to_string()).collect();
                if one != fold { st.fail("C09-fold", || format!("{} hist={hist:?}", c.d())); }
                for (j, l) in fold.iter().enumerate() { let ind = if j == 0 { ii } else { si }; if !l.starts_with(ind) { st.fail("C08-indent-P", || format!("{} hist={hist:?} line#{j}={l:?}", c.d())); } }
            });
            // C08 differential: same widths/emptiness, different characters
            let alt = match (ii, si) { (">", "") => Some(("#", "")), ("", "> ") => Some(("", "| ")), ("你", ">") => Some(("##", "|")), (">>>", "  ") => Some(("#|#", "!!")), ("\x1b[1m", "") => Some(("\u{200b}", "")), _ => None };
            if let Some((ai, asi)) = alt {
                let o2 = o.clone().initial_indent(ai).subsequent_indent(asi);
                strings(&menu, maxlen.min(3), &mut |hist| {
                    let joined: String = hist.iter().map(|&pi| menu[pi]).collect::<Vec<_>>().join("\n");
                    let a: Vec<String> = wrap(&joined, &o).iter().enumerate().map(|(j, l)| l[if j == 0 { ii.len() } else { si.len() }..].to_string()).collect();
                    let b: Vec<String> = wrap(&joined, &o2).iter().enumerate().map(|(j, l)| l[if j == 0 { ai.len() } else { asi.len() }..].to_string()).collect();
                    if a != b { st.fail("C08-diff", || format!("{} alt=({ai:?},{asi:?}) text={joined:?} a={a:?} b={b:?}", c.d())); }
                });
            }
        }}}}}}
        println!("states={states} transitions={trans}");
    }

    if mode == "wrapr" || mode == "wrapm" {
        let alpha: Vec<&str> = if mode == "wrapr" { vec!["a", " ", "-", "\t", "\u{200b}", "\u{a0}", "(", ")", "😀", "é", "\n", "1"] } else { vec!["a", " ", "你", "\x1b", "[", "]", "m", "\n"] };
        let wf = mode == "wrapr";
        let indents = [("", ""), (">", ""), ("", "> "), ("你", ">")];
        std::panic::set_hook(Box::new(|_| {}));
        strings(&alpha, maxlen, &mut |idx| {
            let text0: String = idx.iter().map(|&k| alpha[k]).collect();
            for le in [LineEnding::LF, LineEnding::CRLF] {
                let text = if le == LineEnding::CRLF { text0.replace('\n', "\r\n") } else { text0.clone() };
                for width in (0..=(idx.len() + 3)).chain([usize::MAX]) {
                for (sepn, sep) in [("ascii", WordSeparator::AsciiSpace), ("uni", WordSeparator::UnicodeBreakProperties)] {
                for (algn, alg) in [("ff", WrapAlgorithm::FirstFit), ("opt", WrapAlgorithm::new_optimal_fit())] {
                for (spln, spl) in [("none", WordSplitter::NoHyphenation), ("hyphen", WordSplitter::HyphenSplitter), ("custom", WordSplitter::Custom(custom_split))] {
                for bw in [true, false] {
                for (ii, si) in indents {
                    let c = Cfg { width, sep, sepn, alg, algn, spl: spl.clone(), spln, bw, ii, si, le };
                    st.n += 1;
                    let mut st2 = Stats::default();
                    let r = std::panic::catch_unwind(std::panic::AssertUnwindSafe(|| check_wrap(&text, &c, wf, &mut st2)));
                    if r.is_err() { st.fail("C04-panic", || format!("text={text:?} {}", c.d())); }
                    for (k, v) in st2.bad { *st.bad.entry(k).or_insert(0) += v; }
                }}}}}}
            }
        });
    }
    println!("n={} bad={:?}", st.n, st.bad);
}
