use textwrap::core::{display_width, Word, break_words};
use textwrap::word_splitters::split_words;
use textwrap::*;
use unicode_width::UnicodeWidthChar;

fn strings(alpha: &[&str], maxlen: usize, f: &mut dyn FnMut(&[usize])) {
    fn rec(na: usize, maxlen: usize, idx: &mut Vec<usize>, f: &mut dyn FnMut(&[usize])) {
        f(idx);
        if idx.len() == maxlen { return; }
        for k in 0..na { idx.push(k); rec(na, maxlen, idx, f); idx.pop(); }
    }
    rec(alpha.len(), maxlen, &mut vec![], f);
}
fn cw(c: char) -> usize { c.width().unwrap_or(0) }
fn visible(s: &str) -> (Vec<(usize, char)>, Vec<(usize, usize)>) {
    let mut vis = vec![]; let mut seqs = vec![];
    let cs: Vec<(usize, char)> = s.char_indices().collect();
    let mut i = 0;
    while i < cs.len() {
        let (b, c) = cs[i];
        if c == '\x1b' {
            let start = b; i += 1;
            if i < cs.len() && cs[i].1 == '[' { i += 1; while i < cs.len() { let ch = cs[i].1; i += 1; if ('\x40'..='\x7e').contains(&ch) { break; } } }
            else if i < cs.len() && cs[i].1 == ']' { i += 1; let mut last = ']'; while i < cs.len() { let ch = cs[i].1; i += 1; if ch == '\x07' || (ch == '\\' && last == '\x1b') { break; } last = ch; } }
            else if i < cs.len() { i += 1; }
            let end = if i < cs.len() { cs[i].0 } else { s.len() };
            seqs.push((start, end));
        } else { vis.push((b, c)); i += 1; }
    }
    (vis, seqs)
}
fn ref_width(s: &str) -> usize { visible(s).0.iter().map(|&(_, c)| cw(c)).sum() }
fn ref_hyphen_points(word: &str) -> Vec<usize> {
    let cs: Vec<(usize, char)> = word.char_indices().collect();
    (1..cs.len().saturating_sub(1)).filter(|&k| cs[k].1 == '-' && cs[k-1].1.is_alphanumeric() && cs[k+1].1.is_alphanumeric()).map(|k| cs[k].0 + 1).collect()
}
fn every_boundary(word: &str) -> Vec<usize> { word.char_indices().map(|(i, _)| i).collect() }
fn every_other(word: &str) -> Vec<usize> { word.char_indices().map(|(i, _)| i).skip(1).step_by(2).collect() }

#[derive(Default)]
struct Stats { n: u64, bad: std::collections::BTreeMap<&'static str, u64> }
impl Stats { fn fail(&mut self, id: &'static str, msg: impl FnOnce() -> String) { let e = self.bad.entry(id).or_insert(0); *e += 1; if *e <= 6 { println!("FAIL {} {}", id, msg()); } } }

fn ref_dedent(s: &str) -> String {
    let lines: Vec<&str> = s.lines().collect();
    let content: Vec<&str> = lines.iter().copied().filter(|l| l.chars().any(|c| !c.is_whitespace())).collect();
    let lead = |l: &str| -> String { l.chars().take_while(|c| c.is_whitespace()).collect() };
    let mut m: Option<String> = None;
    for l in &content { let p = lead(l); m = Some(match m { None => p, Some(q) => q.chars().zip(p.chars()).take_while(|(a, b)| a == b).map(|(a, _)| a).collect() }); }
    let m = m.unwrap_or_default();
    let mut out = String::new();
    for l in &lines { if l.chars().any(|c| !c.is_whitespace()) { out.push_str(&l[m.len()..]); } out.push('\n'); }
    if !s.ends_with('\n') && out.ends_with('\n') { out.pop(); }
    out
}
fn ref_indent(s: &str, p: &str) -> String {
    let mut out = String::new();
    let mut rest = s;
    loop {
        if rest.is_empty() { break; }
        let (line, nl, r) = match rest.find('\n') { Some(i) => (&rest[..i], true, &rest[i+1..]), None => (rest, false, "") };
        if line.chars().any(|c| !c.is_whitespace()) { out.push_str(p); } else { out.push_str(p.trim_end()); }
        out.push_str(line); if nl { out.push('\n'); }
        rest = r;
    }
    out
}

fn main() {
    let mode = std::env::args().nth(1).unwrap();
    let maxlen: usize = std::env::args().nth(2).map(|s| s.parse().unwrap()).unwrap_or(4);
    let mut st = Stats::default();
    if mode == "c12" {
        let alpha = ["a", "-", "你", "\u{301}", " ", "1", "\x1b[1m", "\x1b]8;;u\x1b\\", "é", "\u{200b}", "(", "😀"];
        strings(&alpha, maxlen, &mut |idx| {
            let body: String = idx.iter().map(|&k| alpha[k]).collect();
            for ws in ["", "  "] { for pen in ["", "-"] {
                let trimmed = body.trim_end_matches(' ');
                let w = Word { word: trimmed, whitespace: ws, penalty: pen, width: display_width(trimmed) };
                st.n += 1;
                // splitting
                for (sn, s) in [("none", WordSplitter::NoHyphenation), ("hyphen", WordSplitter::HyphenSplitter), ("every", WordSplitter::Custom(every_boundary)), ("other", WordSplitter::Custom(every_other))] {
                    let pts = s.split_points(w.word);
                    let exp_pts = match sn { "none" => vec![], "hyphen" => ref_hyphen_points(w.word), "every" => every_boundary(w.word), _ => every_other(w.word) };
                    if pts != exp_pts { st.fail("C12-points", || format!("{sn} word={:?} pts={pts:?} exp={exp_pts:?}", w.word)); }
                    let pieces: Vec<Word> = split_words(vec![w], &s).collect();
                    let mut cuts = vec![]; let mut acc = 0; let mut cat = String::new();
                    let mut ok = !pieces.is_empty();
                    for (k, p) in pieces.iter().enumerate() {
                        cat.push_str(p.word); acc += p.word.len();
                        let last = k + 1 == pieces.len();
                        if !last { cuts.push(acc);
                            let exp_pen = if p.word.ends_with('-') { "" } else { "-" };
                            if p.penalty != exp_pen || !p.whitespace.is_empty() { ok = false; }
                        } else if p.whitespace != ws || p.penalty != pen { ok = false; }
                        if p.width != display_width(p.word) { ok = false; }
                    }
                    if cat != w.word || cuts != exp_pts { ok = false; }
                    if !ok { st.fail("C12-split", || format!("{sn} word={:?} ws={ws:?} pen={pen:?} pieces={pieces:?}", w.word)); }
                }
                // breaking
                let (vis, seqs) = visible(w.word);
                for limit in 0..=(idx.len() + 1) {
                    let via_bw = break_words(vec![w], limit);
                    if w.width <= limit { if via_bw != vec![w] { st.fail("C12-passthrough", || format!("word={w:?} limit={limit}")); } continue; }
                    let direct: Vec<Word> = w.break_apart(limit).collect();
                    if direct != via_bw { st.fail("C12-bw-vs-apart", || format!("word={w:?} limit={limit}")); }
                    let mut cat = String::new(); let mut ok = true; let mut why = "";
                    let mut pos = 0;
                    for (k, p) in via_bw.iter().enumerate() {
                        let last = k + 1 == via_bw.len();
                        if p.word.is_empty() { ok = false; why = "empty"; }
                        if p.width != ref_width(p.word) { ok = false; why = "width"; }
                        let nz = visible(p.word).0.iter().filter(|&&(_, c)| cw(c) > 0).count();
                        if p.width > limit && nz > 1 { ok = false; why = "too wide"; }
                        cat.push_str(p.word);
                        let end = pos + p.word.len();
                        if !last {
                            if !p.whitespace.is_empty() || !p.penalty.is_empty() { ok = false; why = "ws/pen on non-last"; }
                            if seqs.iter().any(|&(s, e)| s < end && end < e) { ok = false; why = "cut inside seq"; }
                            // first char of next piece
                            match vis.iter().find(|&&(b, _)| b >= end) { Some(&(b, c)) => { if b != end { ok = false; why = "next piece does not start at visible char"; } if !(p.width + cw(c) > limit) { ok = false; why = "not maximal"; } } None => { ok = false; why = "no next visible"; } }
                        } else if p.whitespace != ws || p.penalty != pen { ok = false; why = "ws/pen last"; }
                        pos = end;
                    }
                    if cat != w.word { ok = false; why = "concat"; }
                    if !ok { st.fail("C12-break", || format!("{why}: word={w:?} limit={limit} pieces={via_bw:?}")); }
                }
            }}
        });
    }
    if mode == "c18" {
        let alpha = [" ", "\t", "a", "\n", "\r\n", "\u{a0}", "b"];
        strings(&alpha, maxlen, &mut |idx| {
            let s: String = idx.iter().map(|&k| alpha[k]).collect();
            st.n += 1;
            let d = dedent(&s);
            if d != ref_dedent(&s) { st.fail("C18-ref", || format!("s={s:?} got={d:?} exp={:?}", ref_dedent(&s))); }
            if d.matches('\n').count() != s.matches('\n').count() || d.ends_with('\n') != s.ends_with('\n') { st.fail("C18-lines", || format!("s={s:?} got={d:?}")); }
            if dedent(&d) != d { st.fail("C18-idem", || format!("s={s:?} d={d:?} dd={:?}", dedent(&d))); }
            if !s.contains('\r') { for p in [" ", "\t", "  \t", "\u{a0} "] { if dedent(&indent(&s, p)) != d { st.fail("C18-indent", || format!("s={s:?} p={p:?}")); } } }
            for p in ["", "  ", "# ", ">", "\t", " x "] {
                let i = indent(&s, p);
                if i != ref_indent(&s, p) { st.fail("C19-ref", || format!("s={s:?} p={p:?} got={i:?} exp={:?}", ref_indent(&s, p))); }
                if i.matches('\n').count() != s.matches('\n').count() || i.ends_with('\n') != s.ends_with('\n') { st.fail("C19-lines", || format!("s={s:?} p={p:?} got={i:?}")); }
                if p.is_empty() && i != s { st.fail("C19-empty", || format!("s={s:?}")); }
            }
        });
    }
    if mode == "c20" {
        let alpha = ["a", " ", "你", "\n", "-", "b"];
        std::panic::set_hook(Box::new(|_| {}));
        strings(&alpha, maxlen, &mut |idx| {
            let text: String = idx.iter().map(|&k| alpha[k]).collect();
            for cols in 1..=3usize { for total in 0..=9usize { for (l, m, r) in [("", "", ""), ("|", "|", "|"), ("你", " ", ""), ("", "--", ">")] { for bw in [true, false] {
                st.n += 1;
                let o = Options::new(total).break_words(bw);
                let rows = match std::panic::catch_unwind(|| wrap_columns(&text, cols, o.clone(), l, m, r)) { Ok(x) => x, Err(_) => { st.fail("C20-panic", || format!("text={text:?} cols={cols} total={total} gaps={l:?},{m:?},{r:?} bw={bw}")); continue; } };
                let inner = total.saturating_sub(display_width(l)).saturating_sub(display_width(r)).saturating_sub(display_width(m) * (cols - 1));
                let colw = std::cmp::max(inner / cols, 1);
                let lines = wrap(&text, o.clone().width(colw));
                let nrows = (lines.len() + cols - 1) / cols;
                let mut ok = rows.len() == nrows;
                let mut k_extra: Option<usize> = None;
                if ok { for rno in 0..nrows {
                    let mut pre = String::from(l);
                    for c in 0..cols {
                        match lines.get(rno + c * nrows) { Some(cl) => { pre.push_str(cl); pre.push_str(&" ".repeat(colw.saturating_sub(display_width(cl)))); } None => pre.push_str(&" ".repeat(colw)) }
                        if c + 1 < cols { pre.push_str(m); }
                    }
                    let row = &rows[rno];
                    if !(row.starts_with(&pre) && row.ends_with(r) && row.len() >= pre.len() + r.len()) { ok = false; break; }
                    let extra = &row[pre.len()..row.len() - r.len()];
                    if !extra.bytes().all(|b| b == b' ') { ok = false; break; }
                    match k_extra { None => k_extra = Some(extra.len()), Some(k) => if k != extra.len() { ok = false; break; } }
                } }
                if !ok { st.fail("C20-layout", || format!("text={text:?} cols={cols} total={total} gaps={l:?},{m:?},{r:?} bw={bw} rows={rows:?} lines={lines:?}")); }
                else if lines.iter().all(|cl| display_width(cl) <= colw) {
                    let w0 = rows.first().map(|r| display_width(r));
                    if rows.iter().any(|r| Some(display_width(r)) != w0) { st.fail("C20-uneven", || format!("text={text:?} rows={rows:?}")); }
                    if let Some(w0) = w0 { let exp = display_width(l) + display_width(r) + display_width(m) * (cols - 1) + cols * colw + k_extra.unwrap(); if w0 != exp { st.fail("C20-width", || format!("text={text:?} rows={rows:?} exp={exp}")); } }
                }
            }}}}
        });
    }
    if mode == "c15s" {
        let alpha = [" ", "#", "a", "\n", "\r", "é", "-", "/"];
        std::panic::set_hook(Box::new(|_| {}));
        let pc: &[char] = &[' ', '-', '+', '*', '>', '#', '/'];
        strings(&alpha, maxlen, &mut |idx| {
            let s: String = idx.iter().map(|&k| alpha[k]).collect();
            st.n += 1;
            let r = std::panic::catch_unwind(|| { let (t, o) = unfill(&s); (t, o.initial_indent.to_string(), o.subsequent_indent.to_string(), o.width, o.line_ending) });
            let (t, ii, si, _w, le) = match r { Ok(x) => x, Err(_) => { st.fail("C04-unfill-panic", || format!("s={s:?}")); return; } };
            if !ii.chars().all(|c| pc.contains(&c)) || !si.chars().all(|c| pc.contains(&c)) { st.fail("C15-prefix-chars", || format!("s={s:?}")); }
            // lines (non-empty ones)
            let nel: Vec<&str> = s.split('\n').map(|l| l.strip_suffix('\r').unwrap_or(l)).collect();
            // note: last piece after final \n without \r stripping if no \n follows
            let mut raw: Vec<&str> = s.split('\n').collect();
            let n = raw.len();
            for (k, l) in raw.iter_mut().enumerate() { if k + 1 < n { *l = l.strip_suffix('\r').unwrap_or(l); } }
            let _ = nel;
            let nonempty: Vec<&str> = raw.iter().copied().filter(|l| !l.is_empty()).collect();
            if let Some(f) = nonempty.first() { if !f.starts_with(&ii as &str) { st.fail("C15-ii-prefix", || format!("s={s:?} ii={ii:?}")); } }
            for l in nonempty.iter().skip(1) { if !l.starts_with(&si as &str) { st.fail("C15-si-prefix", || format!("s={s:?} si={si:?}")); } }
            if let Some(p) = t.find('\n') { if p != t.len() - 1 { st.fail("C15-inner-break", || format!("s={s:?} t={t:?}")); } }
            // line ending detection, for input without empty lines
            let has_empty = raw.iter().enumerate().any(|(k, l)| l.is_empty() && !(k + 1 == n)) ;
            if !has_empty {
                let total = s.matches('\n').count(); let crlf = s.matches("\r\n").count();
                let exp = if total > 0 && crlf == total { LineEnding::CRLF } else { LineEnding::LF };
                if le != exp { st.fail("C15-le", || format!("s={s:?} le={le:?}")); }
            }
            for w in [0usize, 1, 3, usize::MAX] { if std::panic::catch_unwind(|| refill(&s, w)).is_err() { st.fail("C04-refill-panic", || format!("s={s:?} w={w}")); } }
        });
    }
    if mode == "c10s" {
        let alpha = ["a", "你", "\u{301}", "é", "😀", "\t", " ", "\x1b[1m", "\x1b[38;5;9m", "\x1b]8;;u\x07", "\x1b]8;;u\x1b\\"];
        let seqs = ["\x1b[1m", "\x1b[38;5;9m", "\x1b]8;;u\x07", "\x1b]8;;u\x1b\\"];
        strings(&alpha, maxlen, &mut |idx| {
            let syms: Vec<&str> = idx.iter().map(|&k| alpha[k]).collect();
            let s: String = syms.concat();
            st.n += 1;
            if display_width(&s) != ref_width(&s) { st.fail("C10-ref", || format!("s={s:?}")); }
            if display_width(&s) > s.len() { st.fail("C10-bytes", || format!("s={s:?}")); }
            if !s.contains('\x1b') {
                for (i, _) in s.char_indices().chain([(s.len(), ' ')]) {
                    if display_width(&s[..i]) + display_width(&s[i..]) != display_width(&s) { st.fail("C10-additive", || format!("s={s:?} i={i}")); }
                }
            }
            // insertion at symbol boundaries
            for pos in 0..=syms.len() { for q in seqs {
                let mut t = String::new(); for (k, sy) in syms.iter().enumerate() { if k == pos { t.push_str(q); } t.push_str(sy); } if pos == syms.len() { t.push_str(q); }
                if display_width(&t) != display_width(&s) { st.fail("C10-insert", || format!("s={s:?} t={t:?}")); }
            }}
        });
    }
    if mode == "c10raw" {
        let alpha = ["a", "你", "\x1b", "[", "]", "\\", "\x07", "m", ";", "1"];
        strings(&alpha, maxlen, &mut |idx| {
            let s: String = idx.iter().map(|&k| alpha[k]).collect();
            st.n += 1;
            if display_width(&s) > s.len() { st.fail("C10-bytes", || format!("s={s:?}")); }
        });
        for u in 0x300..=0x36Fu32 { let c = char::from_u32(u).unwrap(); if display_width(&c.to_string()) != 0 { st.fail("C10-combining", || format!("U+{u:04X}")); } }
    }
    if mode == "c10scan" {
        for b in 0x20u8..=0x7f { let c = b as char;
            let s = format!("\x1b[1{c}X");
            let exp = if ('\x40'..='\x7e').contains(&c) { 1 } else { 0 };
            st.n += 1;
            if display_width(&s) != exp { st.fail("C10-final-byte", || format!("s={s:?} got={} exp={exp}", display_width(&s))); }
        }
    }
    if mode == "c15r" {
        let vocab = ["a", "bb", "ccc", "é", "你", "x-y", "d."];
        let indents = ["", " ", "> ", "- ", "  ", "#", "//", "* "];
        strings(&vocab, maxlen, &mut |idx| {
            if idx.is_empty() { return; }
            let text: String = idx.iter().map(|&k| vocab[k]).collect::<Vec<_>>().join(" ");
            for width in 0..=12 { for alg in [WrapAlgorithm::FirstFit, WrapAlgorithm::new_optimal_fit()] { for le in [LineEnding::LF, LineEnding::CRLF] {
              for ii in indents { for si in indents { for trailing in [false, true] {
                let o = Options::new(width).break_words(false).word_separator(WordSeparator::AsciiSpace).wrap_algorithm(alg).word_splitter(WordSplitter::NoHyphenation).line_ending(le).initial_indent(ii).subsequent_indent(si);
                let mut filled = fill(&text, &o);
                let nlines = filled.split(le.as_str()).count();
                let widest = filled.split(le.as_str()).map(ref_width).max().unwrap();
                if trailing { filled.push_str(le.as_str()); }
                let (t, uo) = unfill(&filled);
                st.n += 1;
                let mut expect = text.clone(); if trailing { expect.push_str(le.as_str()); }
                let mut ok = t == expect && uo.initial_indent == ii && uo.width == widest;
                if nlines >= 2 { ok = ok && uo.subsequent_indent == si && uo.line_ending == le; }
                if !ok { st.fail("C15-roundtrip", || format!("text={text:?} w={width} le={le:?} ii={ii:?} si={si:?} tr={trailing} filled={filled:?} -> {t:?} {:?} {:?} {}", uo.initial_indent, uo.subsequent_indent, uo.width)); }
              }}}
            }}}
        });
    }
    if mode == "c03f" {
        use textwrap::core::Fragment;
        use textwrap::wrap_algorithms::{wrap_optimal_fit, Penalties};
        #[derive(Debug, Clone, Copy, PartialEq)]
        struct F { w: f64, ws: f64, p: f64 }
        impl Fragment for F { fn width(&self) -> f64 { self.w } fn whitespace_width(&self) -> f64 { self.ws } fn penalty_width(&self) -> f64 { self.p } }
        fn line_cost(fr: &[F], i: usize, j: usize, lw: &[f64], pen: &Penalties) -> f64 {
            let n = fr.len(); let target = if i == 0 { lw[0] } else { *lw.last().unwrap() };
            let mut width = 0.0; for f in &fr[i..j] { width += f.w + f.ws; } width = width - fr[j-1].ws + fr[j-1].p;
            let mut c = pen.nline_penalty as f64;
            if width > target { c += (width - target) * pen.overflow_penalty as f64; } else if j < n { let g = target - width; c += g*g; }
            else if i + 1 == j && width < target / pen.short_last_line_fraction as f64 { c += pen.short_last_line_penalty as f64; }
            if fr[j-1].p > 0.0 { c += pen.hyphen_penalty as f64; } c }
        let mut frs: Vec<F> = vec![]; for &w in &[0.0, 1.0, 2.0, 3.0, 5.0] { for &ws in &[0.0, 1.0, 2.0] { for &p in &[0.0, 1.0] { frs.push(F{w,ws,p}); } } }
        let pens = [Penalties::new(), Penalties{nline_penalty:0, overflow_penalty:1, short_last_line_fraction:4, short_last_line_penalty:25, hyphen_penalty:25}, Penalties{nline_penalty:3, overflow_penalty:7, short_last_line_fraction:2, short_last_line_penalty:5, hyphen_penalty:0}];
        let lws: Vec<Vec<f64>> = vec![vec![1.0], vec![3.0], vec![4.0], vec![6.0], vec![2.0, 5.0], vec![5.0, 2.0], vec![4.0,3.0], vec![1.0, 6.0]];
        let names: Vec<String> = (0..frs.len()).map(|k| k.to_string()).collect(); let nrefs: Vec<&str> = names.iter().map(|s| s.as_str()).collect();
        strings(&nrefs, maxlen, &mut |idx| {
            let n = idx.len(); if n == 0 { return; }
            let fr: Vec<F> = idx.iter().map(|&k| frs[k]).collect();
            if !(0..n-1).all(|k| fr[k].p <= fr[k+1].w) { return; }
            for lw in &lws { for pen in &pens {
                st.n += 1;
                let lines = wrap_optimal_fit(&fr, lw, pen).unwrap();
                let mut i = 0; let mut c = 0.0; for l in &lines { let j = i + l.len(); c += line_cost(&fr, i, j, lw, pen); i = j; }
                let mut b = vec![f64::INFINITY; n+1]; b[0] = 0.0; for j in 1..=n { for i in 0..j { let x = b[i] + line_cost(&fr, i, j, lw, pen); if x < b[j] { b[j] = x; } } }
                if c != b[n] { st.fail("C03-subopt", || format!("fr={fr:?} lw={lw:?} pen={pen:?} got={c} best={}", b[n])); }
            }}
        });
    }
    if mode == "c10" {
        let mut maxw = 0; let mut over = 0u64; let mut ctrl_nonzero = 0u64;
        for u in 0..=0x10FFFFu32 { if let Some(c) = char::from_u32(u) {
            st.n += 1;
            if c == '\x1b' { continue; }
            let s = c.to_string();
            let w = display_width(&s);
            if w != cw(c) { st.fail("C10-char", || format!("U+{u:04X}")); }
            if w > s.len() { over += 1; st.fail("C10-bytes", || format!("U+{u:04X} w={w}")); }
            if c.is_control() && w != 0 { ctrl_nonzero += 1; }
            maxw = maxw.max(w);
            let s2 = format!("a\x1b[1m{c}\x1b]8;;u\x07b");
            if display_width(&s2) != 2 + cw(c) { st.fail("C10-ctx", || format!("U+{u:04X}")); }
        }}
        println!("maxw={maxw} over={over} ctrl_nonzero={ctrl_nonzero}");
    }
    println!("n={} bad={:?}", st.n, st.bad);
}
