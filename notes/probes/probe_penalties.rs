use textwrap::*;
use textwrap::wrap_algorithms::Penalties;
fn strings(alpha: &[&str], maxlen: usize, f: &mut dyn FnMut(&[usize])) {
    fn rec(na: usize, maxlen: usize, idx: &mut Vec<usize>, f: &mut dyn FnMut(&[usize])) { f(idx); if idx.len() == maxlen { return; } for k in 0..na { idx.push(k); rec(na, maxlen, idx, f); idx.pop(); } }
    rec(alpha.len(), maxlen, &mut vec![], f);
}
fn main() {
    let maxlen: usize = std::env::args().nth(1).unwrap().parse().unwrap();
    let alpha = ["a", "aaa", " ", "-", "你", "\n", "\u{301}", "\x1b", "["];
    let vals = [0usize, 1, 7, 1 << 32, usize::MAX];
    let mut pens = vec![];
    for &a in &vals { for &b in &vals { for &c in &[0usize, 1, 4, usize::MAX] { for &d in &[0usize, 25, usize::MAX] { for &e in &[0usize, usize::MAX] {
        pens.push(Penalties { nline_penalty: a, overflow_penalty: b, short_last_line_fraction: c, short_last_line_penalty: d, hyphen_penalty: e }); } } } } }
    std::panic::set_hook(Box::new(|_| {}));
    let mut n = 0u64; let mut bad = 0u64;
    strings(&alpha, maxlen, &mut |idx| {
        let text: String = idx.iter().map(|&k| alpha[k]).collect();
        for &w in &[0usize, 1, 2, 5, usize::MAX - 1, usize::MAX] { for pen in &pens { for bw in [true, false] { for (ii, si) in [("", ""), (">>", "你")] {
            let o = Options::new(w).wrap_algorithm(WrapAlgorithm::OptimalFit(*pen)).break_words(bw).initial_indent(ii).subsequent_indent(si);
            n += 1;
            if std::panic::catch_unwind(|| { wrap(&text, &o); }).is_err() { bad += 1; if bad < 5 { println!("PANIC text={text:?} w={w} pen={pen:?} bw={bw}"); } }
        }}}}
    });
    println!("n={n} bad={bad}");
}
