#!/bin/bash
# Mirror /repo's current working tree into mc/subject by checksum (never by mtime):
# cargo's freshness check for path dependencies is mtime-based, so a file restored with an
# older timestamp would otherwise leave a stale binary.  rsync -c without -t gives every
# changed file a fresh mtime.
set -eu
HERE="$(cd "$(dirname "$0")" && pwd)"
REPO="${VERIF_REPO:-/repo}"
mkdir -p "$HERE/mc/subject"
exec 9>"$HERE/mc/.lock-sync"; flock 9
rsync -rc --delete "$REPO/Cargo.toml" "$REPO/src" "$HERE/mc/subject/"
( cd "$HERE/mc/subject" && find . -type f | LC_ALL=C sort | xargs sha256sum | sha256sum | cut -d' ' -f1 ) > "$HERE/mc/subject.sha256"
