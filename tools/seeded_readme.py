#!/usr/bin/env python3
"""Regenerate seeded/README.md from seeded/*/meta.json (header text below, table from the metas)."""
import json, glob, os, re, collections
rows = []
for d in glob.glob("/verif/seeded/C*-*/"):
    sid = os.path.basename(d.rstrip("/"))
    m = json.load(open(d + "meta.json"))
    rows.append((sid.split("-")[0], int(sid.split("-")[1]), sid, m))
rows.sort()
held = collections.OrderedDict()
now = collections.Counter()
for _, _, sid, m in rows:
    r = m["round"]
    h = held.setdefault(r, [0, 0])
    h[1] += 1
    if m["first_evaluation"].startswith("caught by the own property's quick check as delivered"):
        h[0] += 1
    det = m["detection"]
    if det.get("own_property_check_catches"):
        now[det["tier"]] += 1
    elif det.get("with_fuzzing_seam_adapted", {}).get("own_property_check_catches"):
        now["adapted"] += 1
    else:
        now["missed"] += 1
def cell(s, n=220):
    s = (s or "").replace("|", "/").replace("\n", " ")
    return s[:n] + (".." if len(s) > n else "")
out = []
out.append("# Independently seeded property-breaking changes\n")
out.append("Each directory `C<property>-<k>/` holds `patch.diff` (applies to `/repo` HEAD with `git apply`), `demo.rs` (an integration test that fails with the change and passes without it; place it at `tests/seed_demo.rs`) and `meta.json`.")
out.append("The changes were written by sub-agents that saw only the property text and a scratch worktree; each was re-confirmed with `seeded/evaluate.py` (demo passes on HEAD, patch applies, demo fails, the whole repository suite still passes). None of them is ever committed to `/repo`. k = 1,2: round 1; 3,4: round 2; 5,6: round 3 (asked to avoid the obvious candidates and to look for interactions); 7,8: round 4 (told what the tool enumerates and asked to place the trigger outside it); 9,10: round 5 (neutral prompt again, after all the strengthening); 11,12: round 6 (neutral); 13,14: round 7 (adversarial again: told about the short-input spaces, the all-character passes and the long periodic inputs, asked for numeric relations between option values, combinations of two unusual features, medium-sized non-periodic inputs, rarely used entry points, state surviving between calls); 15,16: round 8 (neutral, but given the whole property record — why the tests cannot settle it, the anchored mechanisms — and asked to aim at those mechanisms); 17,18: round 9 (property text only; two changes of different kinds among: cooperating sites, multi-step sequence, unusual input or option combination, particular position); 19,20: round 10 (property text only; A needs a combination of two ingredients, B depends on position, count or size); 21,22: round 11 (10 properties; A a loop or data-flow restructuring that carries state wrongly, B a unit or boundary confusion).")
out.append("To run the checks against one: `git -C /repo apply /verif/seeded/<id>/patch.diff; cd /verif && ./check.sh <ID> quick; git -C /repo checkout -- .`  (`seeded/redetect.py [ids]` does this in a scratch worktree and refreshes `detection` in meta.json.)\n")
out.append("Held-out detection (checks as they were when the seeds arrived), own property's quick check: " + "; ".join(f"round {r}: {a}/{b}" for r, (a, b) in held.items()) + f". With the checks as committed: {now['quick']} of {len(rows)} by the own property's quick check, {now['thorough']} more by the thorough tier, {now['adapted']} (C08-6) only once upstream's cfg(fuzzing) seam is adapted to the signature the change alters (as delivered the harness does not build: exit 2, not a verdict), {now['missed']} not (C11-8 and C03-10, both argued to be outside the statement, see DESIGN.md §10.3).\n")
out.append("`caught by` = the own property's check with the checks as committed; `when first evaluated` = the held-out result.\n")
out.append("| seed | round | change | needs to manifest | caught by | when first evaluated |")
out.append("|---|---|---|---|---|---|")
for p, k, sid, m in rows:
    det = m["detection"]
    if det.get("own_property_check_catches"):
        cb = p + (" (thorough tier)" if det["tier"] == "thorough" else "")
    elif det.get("with_fuzzing_seam_adapted"):
        cb = p + " (with the fuzzing seam adapted; exit 2 as delivered)"
    else:
        cb = "**not caught**"
    out.append(f"| {sid} | {m['round']} | {cell(m.get('breaks'))} | {cell(m.get('needs_to_manifest'))} | {cb} | {cell(m['first_evaluation'], 400)} |")
open("/verif/seeded/README.md", "w").write("\n".join(out) + "\n")
print("; ".join(f"round {r}: {a}/{b}" for r, (a, b) in held.items()), dict(now))
