#!/usr/bin/env python3
"""Replace the table of DESIGN.md §5a by the output of tools/bounds_table.py."""
import subprocess, re
tab = subprocess.run(["python3", "/verif/tools/bounds_table.py"], stdout=subprocess.PIPE, text=True, check=True).stdout.rstrip("\n")
s = open("/verif/DESIGN.md").read()
a = s.index("| property | space | menu | N quick / thorough |")
b = s.index("| **all, both builds**", a)
b = s.index("\n", b)
open("/verif/DESIGN.md", "w").write(s[:a] + tab + s[b:])
print("table lines:", tab.count("\n") + 1)
