#!/usr/bin/env python3
"""Render the spaces recorded in evidence/*.json (quick) and evidence/thorough/*.json as one
compact markdown table (full build; the min build explores the same spaces with the ASCII
separator and first-fit only)."""
import json, glob, os
q = {os.path.basename(f)[:3]: json.load(open(f)) for f in glob.glob("/verif/evidence/C*.json")}
t = {os.path.basename(f)[:3]: json.load(open(f)) for f in glob.glob("/verif/evidence/thorough/C*.json")}
print("| property | space | menu | N quick / thorough | states quick / thorough | evaluations quick / thorough |")
print("|---|---|---|---|---|---|")
def spaces(ev, build):
    return {s["name"]: s for s in ev["coverage"]["spaces"] if s["build"] == build}
tot = [0, 0, 0, 0]
for pid in sorted(q):
    build = "full"
    sq, st = spaces(q[pid], build), spaces(t.get(pid, q[pid]), build)
    for name in list(sq) + [n for n in st if n not in sq]:
        a, b = sq.get(name), st.get(name)
        if b is None:
            # the stored thorough copy predates this space
            menu = len(a.get("menu") or [])
            print(f"| {pid} | {name.split('/',1)[1]} | {menu or '-'} | {a['max_len'] if menu else 'range'} / (thorough copy predates this space) | {a['states']:,} / – | {a['evaluations']:,} / – |")
            continue
        menu = len(b.get("menu") or [])
        nq = a["max_len"] if (a and menu) else "-"
        nt = b["max_len"] if menu else "-"
        if not menu:
            nq = nt = "range"
        print(f"| {pid} | {name.split('/',1)[1]} | {menu or '-'} | {nq} / {nt} | {a['states'] if a else 0:,} / {b['states']:,} | {a['evaluations'] if a else 0:,} / {b['evaluations']:,} |")
    c, d = q[pid]["coverage"], t.get(pid, q[pid])["coverage"]
    tot[0] += c["states"]; tot[1] += d["states"]; tot[2] += c["evaluations"]; tot[3] += d["evaluations"]
print(f"| **all, both builds** | | | | **{tot[0]:,} / {tot[1]:,}** | **{tot[2]:,} / {tot[3]:,}** |")
