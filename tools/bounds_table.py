#!/usr/bin/env python3
"""Render the spaces recorded in evidence/*.json (or another directory) as a markdown table."""
import json, glob, sys, os
d = sys.argv[1] if len(sys.argv) > 1 else "/verif/evidence"
print("| property | space | build | menu | N | states | (state, config) evaluations | complete |")
print("|---|---|---|---|---|---|---|---|")
for f in sorted(glob.glob(os.path.join(d, "C*.json"))):
    ev = json.load(open(f))
    for sp in ev["coverage"]["spaces"]:
        menu = len(sp.get("menu") or [])
        print(f"| {ev['property_id']} | {sp['name'].split('/',1)[1] if '/' in sp['name'] else sp['name']} | {sp['build']} | {menu if menu else '-'} | {sp['max_len'] if menu else '-'} | {sp['states']:,} | {sp['evaluations']:,} | {'yes' if sp['exhaustive'] else 'NO: cap'} |")
