#!/usr/bin/env python3
"""Render mutants/results-*.jsonl and seeded/*/meta.json as markdown tables for DESIGN.md §10."""
import json, glob, os, sys
def mutants(path):
    print("| mutant | file | repo suite | breaks (statement) | caught by (quick tier) |")
    print("|---|---|---|---|---|")
    for l in open(path):
        r = json.loads(l)
        note = ""
        if not r["breaks"] and not r["caught_by"]: note = " (equivalent mutant: no observable change)"
        print(f"| {r['mutant']} | {r['file'].replace('src/','')} | {'pass' if r['suite_passes'] else 'fail'} | {', '.join(r['breaks']) or '—'} | {', '.join(r['caught_by']) or '—'}{note}{' **missed: '+', '.join(r['expected_but_missed'])+'**' if r['expected_but_missed'] else ''} |")
def seeded():
    print("| seed | breaks | what it needs to manifest | caught by |")
    print("|---|---|---|---|")
    for d in sorted(glob.glob("/verif/seeded/C*-*/")):
        m = json.load(open(d + "meta.json"))
        sid = os.path.basename(d.rstrip("/"))
        det = m["detection"]
        cb = ", ".join(f"{k}" for k in det["caught_by"].keys()) or "**missed**"
        print(f"| {sid} | {(m['breaks'] or '')[:160].replace('|','/')} | {(m['needs_to_manifest'] or '')[:160].replace('|','/')} | {cb} |")
if sys.argv[1] == "mutants": mutants(sys.argv[2])
else: seeded()
