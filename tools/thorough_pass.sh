#!/bin/bash
# Run the thorough tier of the listed checks (default: all) over /repo, keep a copy of each
# evidence file under evidence/thorough/, then re-run the quick tier so that evidence/<ID>.json
# is the quick evidence again.  Log: evidence/thorough/pass.log
cd "$(dirname "$0")/.."
ids=("$@"); [ ${#ids[@]} -gt 0 ] || ids=(C01 C02 C03 C04 C05 C06 C07 C08 C09 C10 C11 C12 C13 C14 C15 C16 C17 C18 C19 C20)
mkdir -p evidence/thorough
for id in "${ids[@]}"; do
  s=$(date +%s)
  ./check.sh "$id" thorough > "evidence/thorough/$id.out" 2>&1; rc=$?
  echo "$id thorough exit=$rc wall=$(( $(date +%s) - s ))s repo=$(git -C /repo rev-parse --short HEAD)" >> evidence/thorough/pass.log
  [ $rc -eq 0 ] && cp "evidence/$id.json" "evidence/thorough/$id.json"
  ./check.sh "$id" quick > /dev/null 2>&1; echo "$id quick exit=$?" >> evidence/thorough/pass.log
done
echo "done $(date -u)" >> evidence/thorough/pass.log
