#!/usr/bin/env python3
"""Stamp round / prompt / first_evaluation into the metas of a freshly evaluated round.
usage: seed_round_meta.py <results-own.jsonl> <round> <prompt summary> [<seed id>=<text of first_evaluation for a miss> ...]"""
import json, sys
res, rnd, prompt = sys.argv[1], int(sys.argv[2]), sys.argv[3]
missed = dict(a.split("=", 1) for a in sys.argv[4:])
for l in open(res):
    r = json.loads(l)
    if not r.get("confirmed_valid"):
        print("not valid:", r["seed"]); continue
    p = f"/verif/seeded/{r['seed']}/meta.json"
    m = json.load(open(p))
    m["round"] = rnd
    m["prompt"] = prompt
    if r.get("own_property_check_catches"):
        m["first_evaluation"] = "caught by the own property's quick check as delivered (before any strengthening prompted by this seed)"
    else:
        m["first_evaluation"] = "missed: " + missed.get(r["seed"], "(see DESIGN.md §10.3)")
    json.dump(m, open(p, "w"), indent=1, ensure_ascii=False)
