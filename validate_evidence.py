#!/usr/bin/env python3
"""Validate an evidence file against /root/.vp/EVIDENCE.schema.json when jsonschema is available;
always perform the structural checks the schema requires for level=model_checking."""
import json, sys
p = sys.argv[1]
ev = json.load(open(p))
for k in ("property_id", "tier", "seed", "level", "coverage", "wall_s"):
    assert k in ev, f"missing {k}"
c = ev["coverage"]
assert ev["level"] == "model_checking"
assert isinstance(c.get("states"), int) and c["states"] >= 1
assert isinstance(c.get("transitions"), int) and c["transitions"] >= 1
assert isinstance(c.get("traces_validated_against_impl"), int)
assert isinstance(c.get("samples"), list) and len(c["samples"]) >= 1, "no samples"
try:
    import jsonschema
    schema = json.load(open("/root/.vp/EVIDENCE.schema.json"))
    jsonschema.validate(ev, schema)
except ImportError:
    pass
except FileNotFoundError:
    pass
